#!/bin/bash
# ./run.sh <PROP> <quick|thorough>   |   ./run.sh replay <file>
export GOFLAGS=-mod=mod GOPROXY=off GOSUMDB=off GOTOOLCHAIN=local
HERE=$(cd "$(dirname "$0")" && pwd)
export VERIF_DIR=${VERIF_DIR:-$HERE}
cd "$HERE"
if [ ! -x sim/bin/simcheck ] || [ -n "$(find sim -name '*.go' -newer sim/bin/simcheck 2>/dev/null | head -1)" ]; then
  (cd sim && mkdir -p bin && go build -o bin/simcheck ./cmd/simcheck) || exit 2
fi
if [ "$1" = replay ]; then
  exec sim/bin/simcheck replay "$2"
fi
exec sim/bin/simcheck check "$1" "${2:-quick}"
