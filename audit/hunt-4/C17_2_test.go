package sod

import (
	"errors"
	"os"
	"path/filepath"
	"testing"
)

// C17: opening a collection whose Go struct changed shape (field retyped,
// field added) is refused with ErrStructureChanged on every operation and
// leaves all files byte-identical.
// The descriptor of a slice (map, array) field only holds the name of the
// element type ("[]sod.Tag"): any change in the shape of the element struct
// goes unnoticed. The same holds for a field of a named non struct type whose
// underlying type changes.

func f172Snapshot(t *testing.T, dir string) map[string]string {
	snap := make(map[string]string)
	entries, err := os.ReadDir(dir)
	if err != nil {
		t.Fatal(err)
	}
	for _, e := range entries {
		b, err := os.ReadFile(filepath.Join(dir, e.Name()))
		if err != nil {
			t.Fatal(err)
		}
		snap[e.Name()] = string(b)
	}
	return snap
}

func f172Version1(t *testing.T, root string) {
	type Tag struct {
		Name string
	}
	type Post struct {
		Item
		Title string `sod:"index"`
		Tags  []Tag
	}

	db := Open(root)
	if err := db.Create(&Post{}, DefaultSchema); err != nil {
		t.Fatal(err)
	}
	if err := db.InsertOrUpdate(&Post{Title: "hello", Tags: []Tag{{"go"}}}); err != nil {
		t.Fatal(err)
	}
	if err := db.Close(); err != nil {
		t.Fatal(err)
	}
}

func f172Version2(t *testing.T, root string) {
	// Tags.Name retyped, Tags.Weight added
	type Tag struct {
		Name   int
		Weight float64
	}
	type Post struct {
		Item
		Title string `sod:"index"`
		Tags  []Tag
	}

	db := Open(root)
	defer db.Close()

	if _, err := db.Count(&Post{}); !errors.Is(err, ErrStructureChanged) {
		t.Errorf("Count: want ErrStructureChanged, got %v", err)
	}
	// the stored objects cannot even be read with the new struct
	if _, err := db.All(&Post{}); !errors.Is(err, ErrStructureChanged) {
		t.Errorf("All: want ErrStructureChanged, got %v", err)
	}
	if err := db.InsertOrUpdate(&Post{Title: "world", Tags: []Tag{{1, 0.5}}}); !errors.Is(err, ErrStructureChanged) {
		t.Errorf("InsertOrUpdate: want ErrStructureChanged, got %v", err)
	}
}

func TestFindingC172(t *testing.T) {
	root := t.TempDir()
	f172Version1(t, root)
	dir := filepath.Join(root, "sod.Post")
	before := f172Snapshot(t, dir)
	f172Version2(t, root)
	after := f172Snapshot(t, dir)
	same := len(before) == len(after)
	for k, v := range before {
		if after[k] != v {
			same = false
		}
	}
	if !same {
		t.Errorf("files changed: %d file(s) before, %d after", len(before), len(after))
	}
}
