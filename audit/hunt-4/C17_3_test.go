package sod

import (
	"errors"
	"testing"
)

// C17: opening a collection whose Go struct changed shape is refused.
// An embedded struct and a named field of the same struct type produce the
// same field descriptors ("F173Contact.Email"), but not the same JSON: the
// fields of an embedded struct are stored at top level. Turning one into the
// other (field Email removed from the top level, field F173Contact added) is
// accepted, and every stored object silently reads back with zero values.

type F173Contact struct {
	Email string `sod:"index"`
}

func f173Version1(t *testing.T, root string) {
	type Customer struct {
		Item
		F173Contact
	}

	db := Open(root)
	if err := db.Create(&Customer{}, DefaultSchema); err != nil {
		t.Fatal(err)
	}
	c := &Customer{}
	c.Email = "bob@example.com"
	if err := db.InsertOrUpdate(c); err != nil {
		t.Fatal(err)
	}
	if err := db.Close(); err != nil {
		t.Fatal(err)
	}
}

func f173Version2(t *testing.T, root string) {
	type Customer struct {
		Item
		F173Contact F173Contact
	}

	db := Open(root)
	defer db.Close()

	objs, err := db.All(&Customer{})
	if errors.Is(err, ErrStructureChanged) {
		return
	}
	t.Errorf("All on a changed struct: want ErrStructureChanged, got %v", err)
	for _, o := range objs {
		if email := o.(*Customer).F173Contact.Email; email != "bob@example.com" {
			t.Errorf("stored object read back with Email=%q", email)
		}
	}
}

func TestFindingC173(t *testing.T) {
	root := t.TempDir()
	f173Version1(t, root)
	f173Version2(t, root)
}
