package sod

import (
	"os"
	"path/filepath"
	"strings"
	"testing"
)

// C20 (and C19, "a valid result"): a search returns each object at most once.
// The structural validation of the index loaded from schema.json checks that
// every object id has one entry in every field index, not that two ids do not
// name the same object. With a list of objects giving one UUID to two ids (a
// damaged or hand-edited schema.json) the collection is accepted, Count says 1
// and a search collects the same object twice.

type f202Obj struct {
	Item
	A int `sod:"index"`
}

func TestFindingC202(t *testing.T) {
	root := t.TempDir()
	dir := filepath.Join(root, "sod.f202Obj")
	db := Open(root)

	if err := db.Create(&f202Obj{}, DefaultSchema); err != nil {
		t.Fatal(err)
	}
	a, b := &f202Obj{A: 1}, &f202Obj{A: 2}
	if err := db.InsertOrUpdate(a); err != nil {
		t.Fatal(err)
	}
	if err := db.InsertOrUpdate(b); err != nil {
		t.Fatal(err)
	}
	if err := db.Close(); err != nil {
		t.Fatal(err)
	}

	// id 1 names a as well, b is gone
	path := filepath.Join(dir, SchemaFilename)
	data, err := os.ReadFile(path)
	if err != nil {
		t.Fatal(err)
	}
	schema := string(data)
	if strings.Count(schema, b.UUID()) != 1 {
		t.Fatalf("unexpected schema: %s", schema)
	}
	schema = strings.Replace(schema, b.UUID(), a.UUID(), 1)
	if err := os.WriteFile(path, []byte(schema), 0600); err != nil {
		t.Fatal(err)
	}
	if err := os.Remove(filepath.Join(dir, b.UUID()+DefaultExtension)); err != nil {
		t.Fatal(err)
	}

	db = Open(root)
	defer db.Close()

	n, err := db.Count(&f202Obj{})
	if err != nil {
		// refusing such a schema is fine
		t.Skipf("schema refused: %v", err)
	}

	objs, err := db.Search(&f202Obj{}, "A", "<", 10).Collect()
	if err != nil {
		t.Skipf("search refused: %v", err)
	}

	seen := make(map[string]bool)
	for _, o := range objs {
		if seen[o.UUID()] {
			t.Errorf("object %s collected twice (Count says the collection holds %d object(s))", o.UUID(), n)
		}
		seen[o.UUID()] = true
	}
}
