package sod

import "testing"

// C16: searches on an upper/lower field are case-insensitive, whether or not
// the field is indexed. The canonicalisation of a "~=" search value is applied
// to the whole pattern, including its escape sequences and flags: \d becomes
// \D (its negation), \S becomes \s, (?i) becomes (?I) (invalid)...

type f163Obj struct {
	Item
	U string `sod:"upper,index"`
	L string `sod:"lower"`
}

func TestFindingC163(t *testing.T) {
	db := Open(t.TempDir())
	defer db.Close()

	if err := db.Create(&f163Obj{}, DefaultSchema); err != nil {
		t.Fatal(err)
	}

	if err := db.InsertOrUpdate(&f163Obj{U: "a1", L: "Foo Bar"}); err != nil {
		t.Fatal(err)
	}

	// indexed upper field holding "A1"
	if s := db.Search(&f163Obj{}, "U", "~=", `^a\d$`); s.Err() != nil || s.Len() != 1 {
		t.Errorf(`indexed upper field holding "A1", pattern ^a\d$: want 1 result, got len=%d err=%v`, s.Len(), s.Err())
	}

	// unindexed lower field holding "foo bar"
	if s := db.Search(&f163Obj{}, "L", "~=", `^\S+ \S+$`); s.Err() != nil || s.Len() != 1 {
		t.Errorf(`unindexed lower field holding "foo bar", pattern ^\S+ \S+$: want 1 result, got len=%d err=%v`, s.Len(), s.Err())
	}
}
