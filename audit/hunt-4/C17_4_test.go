package sod

import (
	"os"
	"path/filepath"
	"strings"
	"testing"
	"time"
)

// C17: Create with a compatible schema may switch asynchronous-write settings
// at any time without losing pending writes or disturbing the running process.
// The "flusher is running" flag lives in the *Async the caller's Schema value
// points to. Switching async -> sync -> async with the same Schema value (the
// natural way to switch back) finds the flag still set and never restarts the
// flusher, which ended with the switch to sync: writes accepted afterwards stay
// pending forever, whatever threshold and timeout say, and are lost if the
// process stops without Close.

type f174Obj struct {
	Item
	A int `sod:"index"`
}

func f174ObjectFiles(t *testing.T, dir string) (n int) {
	entries, err := os.ReadDir(dir)
	if err != nil {
		t.Fatal(err)
	}
	for _, e := range entries {
		if strings.HasSuffix(e.Name(), DefaultExtension) && e.Name() != SchemaFilename && !strings.HasPrefix(e.Name(), ".") {
			n++
		}
	}
	return
}

func TestFindingC174(t *testing.T) {
	root := t.TempDir()
	dir := filepath.Join(root, "sod.f174Obj")
	db := Open(root)
	defer db.Close()

	async := DefaultSchema
	// flush as soon as one write is pending, or every 200ms
	async.Asynchrone(1, 200*time.Millisecond)

	// async phase
	if err := db.Create(&f174Obj{}, async); err != nil {
		t.Fatal(err)
	}
	if err := db.InsertOrUpdate(&f174Obj{A: 1}); err != nil {
		t.Fatal(err)
	}
	time.Sleep(time.Second)
	if n := f174ObjectFiles(t, dir); n != 1 {
		t.Fatalf("first async phase: %d file(s) on disk, want 1", n)
	}

	// sync phase, long enough for the flusher to see it
	if err := db.Create(&f174Obj{}, DefaultSchema); err != nil {
		t.Fatal(err)
	}
	if err := db.InsertOrUpdate(&f174Obj{A: 2}); err != nil {
		t.Fatal(err)
	}
	time.Sleep(500 * time.Millisecond)
	if n := f174ObjectFiles(t, dir); n != 2 {
		t.Fatalf("sync phase: %d file(s) on disk, want 2", n)
	}

	// back to async with the very same settings
	if err := db.Create(&f174Obj{}, async); err != nil {
		t.Fatal(err)
	}
	if err := db.InsertOrUpdate(&f174Obj{A: 3}); err != nil {
		t.Fatal(err)
	}
	if err := db.InsertOrUpdate(&f174Obj{A: 4}); err != nil {
		t.Fatal(err)
	}

	// ten times the timeout, threshold exceeded: the process "crashes" now
	// (the handle is dropped without Close)
	time.Sleep(2 * time.Second)
	if n := f174ObjectFiles(t, dir); n != 4 {
		t.Errorf("second async phase: %d object file(s) on disk 2s after 2 writes (threshold 1, timeout 200ms), want 4: the flusher is not running", n)
	}
}
