package sod

import (
	"strings"
	"testing"
)

// C16: searches on an upper/lower field are case-insensitive. The canonical
// form is strings.ToLower / strings.ToUpper, which do not map all the case
// variants of a letter to one form: two strings equal under Unicode case
// folding (strings.EqualFold) can have different canonical forms.

type f165Lower struct {
	Item
	L string `sod:"lower,index"`
}

type f165Upper struct {
	Item
	U string `sod:"upper,index"`
}

func TestFindingC165(t *testing.T) {
	db := Open(t.TempDir())
	defer db.Close()

	if err := db.Create(&f165Lower{}, DefaultSchema); err != nil {
		t.Fatal(err)
	}
	if err := db.Create(&f165Upper{}, DefaultSchema); err != nil {
		t.Fatal(err)
	}

	// greek word with a final sigma and its upper case form
	stored, searched := "οδος", "ΟΔΟΣ"
	if !strings.EqualFold(stored, searched) || strings.ToUpper(stored) != searched {
		t.Fatal("test values are not case variants")
	}
	if err := db.InsertOrUpdate(&f165Lower{L: stored}); err != nil {
		t.Fatal(err)
	}
	if s := db.Search(&f165Lower{}, "L", "=", searched); s.Err() != nil || s.Len() != 1 {
		t.Errorf("lower field holding %q searched with its upper case form %q: len=%d err=%v", stored, searched, s.Len(), s.Err())
	}

	// sharp s: U+1E9E is the upper case form of U+00DF
	low, up := "straße", "straẞe"
	if !strings.EqualFold(low, up) || strings.ToLower(up) != low {
		t.Fatal("test values are not case variants")
	}
	if err := db.InsertOrUpdate(&f165Upper{U: low}); err != nil {
		t.Fatal(err)
	}
	if s := db.Search(&f165Upper{}, "U", "=", up); s.Err() != nil || s.Len() != 1 {
		t.Errorf("upper field holding %q searched with %q: len=%d err=%v", low, up, s.Len(), s.Err())
	}
}
