package sod

import (
	"bytes"
	"fmt"
	"os"
	"path/filepath"
	"testing"
)

// C19: whatever schema.json contains (bit-flipped, structurally wrong), API
// calls return an error or a valid result, they never panic.
// The "name" of a field index (the field the values are read from) is never
// checked against the key it is stored under: one flipped bit turns the index
// of string field A into an index fed with the values of int field C. The
// schema is accepted and the next insertion panics on a type assertion
// (a search does too).

type f192Obj struct {
	Item
	A string `sod:"index"`
	C int    `sod:"index"`
}

func TestFindingC192(t *testing.T) {
	root := t.TempDir()
	db := Open(root)

	if err := db.Create(&f192Obj{}, DefaultSchema); err != nil {
		t.Fatal(err)
	}
	for i := 0; i < 3; i++ {
		if err := db.InsertOrUpdate(&f192Obj{A: fmt.Sprintf("a%d", i), C: i}); err != nil {
			t.Fatal(err)
		}
	}
	if err := db.Close(); err != nil {
		t.Fatal(err)
	}

	path := filepath.Join(root, "sod.f192Obj", SchemaFilename)
	data, err := os.ReadFile(path)
	if err != nil {
		t.Fatal(err)
	}

	// "name":"A" becomes "name":"C": 'A' ^ 0x02 == 'C'
	needle := []byte(`"name":"A"`)
	i := bytes.Index(data, needle)
	if i < 0 || bytes.Count(data, needle) != 1 {
		t.Fatalf("unexpected schema: %s", data)
	}
	data[i+len(needle)-2] ^= 0x02
	if err := os.WriteFile(path, data, 0600); err != nil {
		t.Fatal(err)
	}

	db = Open(root)

	call := func(name string, f func() error) {
		defer func() {
			if r := recover(); r != nil {
				t.Errorf("%s PANIC: %v", name, r)
			}
		}()
		t.Logf("%s: %v", name, f())
	}

	call("Count", func() error { _, err := db.Count(&f192Obj{}); return err })
	call("InsertOrUpdate", func() error { return db.InsertOrUpdate(&f192Obj{A: "new", C: 42}) })
	call("Search", func() error { _, err := db.Search(&f192Obj{}, "A", "=", "a1").Collect(); return err })
}
