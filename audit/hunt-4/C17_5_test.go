package sod

import (
	"os"
	"path/filepath"
	"testing"
	"time"
)

// C17: Create may switch asynchronous writes off at any time without losing
// pending writes.
// Create flushes the pending writes before it switches to synchronous mode.
// objectMap.flush removes every object from the pending list whether or not it
// could be written: when the flush meets a storage error (here a directory
// sits where the object file is expected) Create fails, which is fine, but the
// pending write is gone. Once the cause is removed, a second Create succeeds
// with nothing left to flush: the object stays indexed, is never written, and
// the collection is reported corrupted at the next start.

type f175Obj struct {
	Item
	A int `sod:"index"`
}

func TestFindingC175(t *testing.T) {
	root := t.TempDir()
	dir := filepath.Join(root, "sod.f175Obj")
	db := Open(root)

	async := DefaultSchema
	// the flusher does not interfere
	async.Asynchrone(1000, time.Hour)
	if err := db.Create(&f175Obj{}, async); err != nil {
		t.Fatal(err)
	}

	o := &f175Obj{A: 42}
	o.Initialize("00000000-0000-4000-8000-000000000001")

	// storage problem: a directory where the object file is expected
	obstacle := filepath.Join(dir, o.UUID()+DefaultExtension)
	if err := os.MkdirAll(filepath.Join(obstacle, "sub"), 0700); err != nil {
		t.Fatal(err)
	}

	// accepted, pending
	if err := db.InsertOrUpdate(o); err != nil {
		t.Fatal(err)
	}

	// the switch to synchronous writes has to flush, and cannot
	if err := db.Create(&f175Obj{}, DefaultSchema); err == nil {
		t.Fatal("Create must have failed")
	} else {
		t.Logf("Create: %s", err)
	}

	// the problem is fixed and the switch attempted again
	if err := os.RemoveAll(obstacle); err != nil {
		t.Fatal(err)
	}
	if err := db.Create(&f175Obj{}, DefaultSchema); err != nil {
		t.Fatalf("second Create: %s", err)
	}
	if err := db.Close(); err != nil {
		t.Fatal(err)
	}

	if _, err := os.Stat(obstacle); err != nil {
		t.Errorf("the pending write never reached the disk: %s", err)
	}

	db = Open(root)
	defer db.Close()
	if n, err := db.Count(&f175Obj{}); err != nil || n != 1 {
		t.Errorf("after restart: count=%d err=%v", n, err)
	}
	if s := db.Search(&f175Obj{}, "A", "=", 42); s.Err() != nil || s.Len() != 1 {
		t.Errorf("after restart: search len=%d err=%v", s.Len(), s.Err())
	} else if _, err := s.One(); err != nil {
		t.Errorf("after restart: object cannot be read: %s", err)
	}
}
