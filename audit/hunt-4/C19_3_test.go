package sod

import (
	"os"
	"path/filepath"
	"strings"
	"testing"
	"time"
)

// C19: whatever schema.json contains, API calls never hang.
// The extension read from schema.json is used as is to build file names. With
// an extension such that <uuid><extension> always names an existing regular
// file ("/../schema.json": <dir>/<uuid>/../schema.json is cleaned into
// <dir>/schema.json), the loop looking for an unused UUID in DB.initialize
// never ends: InsertOrUpdate of a new object hangs with the write lock held,
// and so does every later call on the handle.

type f193Obj struct {
	Item
	A int `sod:"index"`
}

func TestFindingC193(t *testing.T) {
	root := t.TempDir()
	db := Open(root)

	if err := db.Create(&f193Obj{}, DefaultSchema); err != nil {
		t.Fatal(err)
	}
	if err := db.Close(); err != nil {
		t.Fatal(err)
	}

	path := filepath.Join(root, "sod.f193Obj", SchemaFilename)
	data, err := os.ReadFile(path)
	if err != nil {
		t.Fatal(err)
	}
	bad := strings.Replace(string(data), `"extension":".json"`, `"extension":"/../schema.json"`, 1)
	if bad == string(data) {
		t.Fatalf("unexpected schema: %s", data)
	}
	if err := os.WriteFile(path, []byte(bad), 0600); err != nil {
		t.Fatal(err)
	}

	db = Open(root)
	done := make(chan error, 1)
	go func() {
		done <- db.InsertOrUpdate(&f193Obj{A: 1})
	}()

	select {
	case err := <-done:
		t.Logf("InsertOrUpdate returned: %v", err)
	case <-time.After(5 * time.Second):
		t.Errorf("InsertOrUpdate still running after 5s")
	}
}
