package sod

import (
	"fmt"
	"testing"
)

// C16: a field carrying an upper/lower constraint is always stored in
// canonical case. A field whose type is a named string type (Kind String)
// makes InsertOrUpdate panic instead.

type f162Str string

type f162Obj struct {
	Item
	N f162Str `sod:"upper"`
}

func TestFindingC162(t *testing.T) {
	db := Open(t.TempDir())

	if err := db.Create(&f162Obj{}, DefaultSchema); err != nil {
		t.Fatal(err)
	}

	o := &f162Obj{N: "abc"}
	err := func() (err error) {
		defer func() {
			if r := recover(); r != nil {
				err = fmt.Errorf("PANIC: %v", r)
			}
		}()
		if e := db.InsertOrUpdate(o); e != nil {
			// a clean refusal would not be a finding
			t.Skipf("refused: %s", e)
		}
		return nil
	}()

	if err != nil {
		t.Fatalf("InsertOrUpdate of a field with an upper constraint: %s", err)
	}

	if o.N != "ABC" {
		t.Errorf("stored value is not canonical: %s", o.N)
	}
}
