package sod

import (
	"errors"
	"math/big"
	"os"
	"path/filepath"
	"testing"
)

// C17: opening a collection whose Go struct changed shape (field added) is
// refused on every operation and leaves all files byte-identical.
// A field whose type is a struct (or pointer to a struct) without exported
// field (big.Int, netip.Addr, struct{}...) has no field descriptor at all: it
// can be added or removed without the schema guard noticing.
//
// The two versions of the struct are local types of the same name: both are
// "sod.Account" for the library, as a type edited between two builds would be.

func f171Snapshot(t *testing.T, dir string) map[string]string {
	snap := make(map[string]string)
	entries, err := os.ReadDir(dir)
	if err != nil {
		t.Fatal(err)
	}
	for _, e := range entries {
		b, err := os.ReadFile(filepath.Join(dir, e.Name()))
		if err != nil {
			t.Fatal(err)
		}
		snap[e.Name()] = string(b)
	}
	return snap
}

func f171Same(a, b map[string]string) bool {
	if len(a) != len(b) {
		return false
	}
	for k, v := range a {
		if w, ok := b[k]; !ok || v != w {
			return false
		}
	}
	return true
}

func f171Version1(t *testing.T, root string) {
	type Account struct {
		Item
		Owner string `sod:"index"`
	}

	db := Open(root)
	if err := db.Create(&Account{}, DefaultSchema); err != nil {
		t.Fatal(err)
	}
	if err := db.InsertOrUpdate(&Account{Owner: "bob"}); err != nil {
		t.Fatal(err)
	}
	if err := db.Close(); err != nil {
		t.Fatal(err)
	}
}

func f171Version2(t *testing.T, root string) {
	// field Balance added
	type Account struct {
		Item
		Owner   string `sod:"index"`
		Balance *big.Int
	}

	db := Open(root)
	defer db.Close()

	if _, err := db.Count(&Account{}); !errors.Is(err, ErrStructureChanged) {
		t.Errorf("Count on a struct with an added field: want ErrStructureChanged, got %v", err)
	}
	if _, err := db.All(&Account{}); !errors.Is(err, ErrStructureChanged) {
		t.Errorf("All on a struct with an added field: want ErrStructureChanged, got %v", err)
	}
	if err := db.Create(&Account{}, DefaultSchema); !errors.Is(err, ErrStructureChanged) {
		t.Errorf("Create on a struct with an added field: want ErrStructureChanged, got %v", err)
	}
	if err := db.InsertOrUpdate(&Account{Owner: "alice", Balance: big.NewInt(42)}); !errors.Is(err, ErrStructureChanged) {
		t.Errorf("InsertOrUpdate on a struct with an added field: want ErrStructureChanged, got %v", err)
	}
}

func TestFindingC171(t *testing.T) {
	root := t.TempDir()
	f171Version1(t, root)
	dir := filepath.Join(root, "sod.Account")
	before := f171Snapshot(t, dir)
	f171Version2(t, root)
	if after := f171Snapshot(t, dir); !f171Same(before, after) {
		t.Errorf("files changed: %d file(s) before, %d after", len(before), len(after))
	}
}
