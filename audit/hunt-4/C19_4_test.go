package sod

import (
	"os"
	"path/filepath"
	"strings"
	"testing"
)

// C19: whatever schema.json contains, API calls never panic.
// Object ids are uint64. An index whose largest id is MaxUint64 passes every
// check, but the id counter (largest id + 1) wraps to 0: the next object
// inserted is given id 0, the id of an object which is already indexed. The two
// objects then share one entry in every map of the index, and deleting both
// panics ("object id not found").

type f194Obj struct {
	Item
	A int `sod:"index"`
}

func TestFindingC194(t *testing.T) {
	root := t.TempDir()
	db := Open(root)

	if err := db.Create(&f194Obj{}, DefaultSchema); err != nil {
		t.Fatal(err)
	}
	a, b := &f194Obj{A: 1}, &f194Obj{A: 2}
	if err := db.InsertOrUpdate(a); err != nil {
		t.Fatal(err)
	}
	if err := db.InsertOrUpdate(b); err != nil {
		t.Fatal(err)
	}
	if err := db.Close(); err != nil {
		t.Fatal(err)
	}

	// the id of b (1) becomes 18446744073709551615, in the index of A and in
	// the list of objects
	path := filepath.Join(root, "sod.f194Obj", SchemaFilename)
	data, err := os.ReadFile(path)
	if err != nil {
		t.Fatal(err)
	}
	schema := string(data)
	if strings.Count(schema, `[2,1]`) != 1 || strings.Count(schema, `"1":"`) != 1 {
		t.Fatalf("unexpected schema: %s", schema)
	}
	schema = strings.Replace(schema, `[2,1]`, `[2,18446744073709551615]`, 1)
	schema = strings.Replace(schema, `"1":"`, `"18446744073709551615":"`, 1)
	if err := os.WriteFile(path, []byte(schema), 0600); err != nil {
		t.Fatal(err)
	}

	db = Open(root)
	if n, err := db.Count(&f194Obj{}); err != nil || n != 2 {
		// refusing such a schema would be fine
		t.Skipf("schema refused: n=%d err=%v", n, err)
	}

	c := &f194Obj{A: 3}
	if err := db.InsertOrUpdate(c); err != nil {
		t.Skipf("insertion refused: %v", err)
	}

	defer func() {
		if r := recover(); r != nil {
			t.Errorf("PANIC: %v", r)
		}
	}()

	if err := db.Delete(a); err != nil {
		t.Logf("delete a: %s", err)
	}
	if err := db.Delete(c); err != nil {
		t.Logf("delete c: %s", err)
	}
}
