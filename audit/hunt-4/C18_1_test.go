package sod

import "testing"

// C18: a database directory stays loadable after further writes.
// A Go string needs not be valid UTF-8. The index is sorted on the bytes of
// the strings, but encoding/json replaces every invalid byte by U+FFFD when
// schema.json (and the object file) is written: the order of the values read
// back is not the order they were written in, and the collection is refused
// ("field index S is not ordered") after a clean Close.

type f181Obj struct {
	Item
	S string `sod:"index"`
}

func TestFindingC181(t *testing.T) {
	root := t.TempDir()
	db := Open(root)

	if err := db.Create(&f181Obj{}, DefaultSchema); err != nil {
		t.Fatal(err)
	}

	// "\xff" sorts after the emoji (0xf0...) in memory, "�" (0xef...)
	// sorts before it once written
	for _, s := range []string{"\xff", "\U0001F600"} {
		if err := db.InsertOrUpdate(&f181Obj{S: s}); err != nil {
			t.Fatal(err)
		}
	}

	if n, err := db.Count(&f181Obj{}); err != nil || n != 2 {
		t.Fatalf("count before close: %d %v", n, err)
	}

	if err := db.Control(); err != nil {
		t.Fatalf("control before close: %s", err)
	}

	if err := db.Close(); err != nil {
		t.Fatal(err)
	}

	db = Open(root)
	defer db.Close()

	if n, err := db.Count(&f181Obj{}); err != nil || n != 2 {
		t.Errorf("count after clean close and reopen: n=%d err=%v", n, err)
	}

	if objs, err := db.All(&f181Obj{}); err != nil || len(objs) != 2 {
		t.Errorf("all after clean close and reopen: n=%d err=%v", len(objs), err)
	}

	// and Repair does not help
	t.Logf("repair: %v", db.Repair(&f181Obj{}))
}
