package sod

import "testing"

// C16: a search on a field carrying an upper constraint must be
// case-insensitive. The field of an embedded struct can be named by its
// promoted name (fieldByName resolves it, see TestFieldByName), but then the
// search value is not canonicalised.

type F161Emb struct {
	Name string `sod:"upper,index"`
}

type f161Obj struct {
	Item
	F161Emb
}

func TestFindingC161(t *testing.T) {
	db := Open(t.TempDir())
	defer db.Close()

	if err := db.Create(&f161Obj{}, DefaultSchema); err != nil {
		t.Fatal(err)
	}

	o := &f161Obj{}
	o.Name = "abc"
	if err := db.InsertOrUpdate(o); err != nil {
		t.Fatal(err)
	}
	if o.Name != "ABC" {
		t.Fatalf("value not canonicalised: %s", o.Name)
	}

	// sanity: full path is case-insensitive
	if s := db.Search(&f161Obj{}, "F161Emb.Name", "=", "abc"); s.Err() != nil || s.Len() != 1 {
		t.Fatalf("full path search: len=%d err=%v", s.Len(), s.Err())
	}

	// the same field through its promoted name: the query is accepted and
	// evaluated, but case-sensitively
	canon := db.Search(&f161Obj{}, "Name", "=", "ABC")
	other := db.Search(&f161Obj{}, "Name", "=", "abc")
	if canon.Err() != nil || other.Err() != nil {
		t.Skipf("promoted name refused: %v %v", canon.Err(), other.Err())
	}
	if canon.Len() != 1 {
		t.Fatalf("search with canonical value: %d results", canon.Len())
	}
	if other.Len() != canon.Len() {
		t.Errorf("search on an upper field is case-sensitive: %q finds %d object(s), %q finds %d", "ABC", canon.Len(), "abc", other.Len())
	}
}
