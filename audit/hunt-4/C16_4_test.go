package sod

import "testing"

// C16: "a field carrying an upper or lower constraint is always stored in
// canonical case". The sod tag of a field which is a pointer to a scalar is
// silently dropped by FieldDescriptors, although the constraint machinery
// supports such a field (it works when the same constraint is given through a
// custom schema).

type f164Obj struct {
	Item
	P *string `sod:"upper"`
	S string  `sod:"upper"`
}

func TestFindingC164(t *testing.T) {
	// the constraint is supported on a *string when set by hand
	db := Open(t.TempDir())
	fds := FieldDescriptors(&f164Obj{})
	if err := fds.Constraint("P", Constraints{Upper: true}); err != nil {
		t.Fatal(err)
	}
	if err := db.Create(&f164Obj{}, NewCustomSchema(fds, DefaultExtension)); err != nil {
		t.Fatal(err)
	}
	v := "abc"
	o := &f164Obj{P: &v, S: "abc"}
	if err := db.InsertOrUpdate(o); err != nil {
		t.Fatal(err)
	}
	if *o.P != "ABC" || o.S != "ABC" {
		t.Fatalf("custom schema: P=%s S=%s", *o.P, o.S)
	}
	db.Close()

	// the same constraint carried by the tag is ignored
	db = Open(t.TempDir())
	defer db.Close()
	if err := db.Create(&f164Obj{}, DefaultSchema); err != nil {
		t.Fatal(err)
	}
	v = "abc"
	o = &f164Obj{P: &v, S: "abc"}
	if err := db.InsertOrUpdate(o); err != nil {
		t.Fatal(err)
	}
	if o.S != "ABC" {
		t.Fatalf("S=%s", o.S)
	}
	if *o.P != "ABC" {
		t.Errorf(`field P tagged sod:"upper" stored as %q`, *o.P)
	}
	if s := db.Search(&f164Obj{}, "P", "=", "ABC"); s.Err() != nil || s.Len() != 1 {
		t.Errorf("search P = ABC: len=%d err=%v", s.Len(), s.Err())
	}
}
