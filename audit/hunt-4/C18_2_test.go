package sod

import (
	"os"
	"strings"
	"testing"
)

// C18: each collection lives in a directory named after the struct type, in
// snake case when lower-case names are on.
// camelToSnake walks the rune offsets of the name but converts the byte found
// at each offset to a rune: of every non-ASCII letter (legal in a Go
// identifier) only the first byte is kept, as a Latin-1 character. "Café" is
// stored under "sod._cafÃ", and so is "Cafè": two different types share one
// directory, one schema.json and one set of object files.

type Café struct {
	Item
	A int `sod:"index"`
}

type Cafè struct {
	Item
	A int `sod:"index"`
}

func TestFindingC182(t *testing.T) {
	old := LowercaseNames
	LowercaseNames = true
	defer func() { LowercaseNames = old }()

	root := t.TempDir()
	db := Open(root)
	defer db.Close()

	if err := db.Create(&Café{}, DefaultSchema); err != nil {
		t.Fatal(err)
	}
	if err := db.InsertOrUpdate(&Café{A: 1}); err != nil {
		t.Fatal(err)
	}

	entries, err := os.ReadDir(root)
	if err != nil {
		t.Fatal(err)
	}
	for _, e := range entries {
		// whatever the way the package prefix is rendered
		if !strings.HasSuffix(e.Name(), "café") {
			t.Errorf("collection of type sod.Café lives in directory %q, want a name ending with %q", e.Name(), "café")
		}
	}

	// another type, another collection
	if err := db.Create(&Cafè{}, DefaultSchema); err != nil {
		t.Fatal(err)
	}
	if n, err := db.Count(&Cafè{}); err != nil || n != 0 {
		t.Errorf("new collection of type sod.Cafè holds %d object(s), err=%v", n, err)
	}
	if entries, _ = os.ReadDir(root); len(entries) != 2 {
		t.Errorf("%d directory(ies) for 2 collections", len(entries))
	}
}
