package sod

import (
	"os"
	"path/filepath"
	"strings"
	"testing"
)

// C20: collecting a search after later inserts returns only objects that
// matched when it was evaluated, never a different object.
// A search result holds object ids, which are resolved when it is collected.
// That is safe as long as an id is never given to another object, which the
// id counter does not guarantee: it is "largest id found in schema.json + 1"
// and wraps to 0 when that id is MaxUint64 (a legal uint64, every check of the
// loaded index passes). The object inserted after the search was evaluated
// takes id 0 and replaces the object the search had found, which still exists.

type f201Obj struct {
	Item
	A int `sod:"index"`
}

func TestFindingC201(t *testing.T) {
	root := t.TempDir()
	db := Open(root)

	if err := db.Create(&f201Obj{}, DefaultSchema); err != nil {
		t.Fatal(err)
	}
	a, b := &f201Obj{A: 1}, &f201Obj{A: 2}
	if err := db.InsertOrUpdate(a); err != nil {
		t.Fatal(err)
	}
	if err := db.InsertOrUpdate(b); err != nil {
		t.Fatal(err)
	}
	if err := db.Close(); err != nil {
		t.Fatal(err)
	}

	// the id of b (1) becomes 18446744073709551615
	path := filepath.Join(root, "sod.f201Obj", SchemaFilename)
	data, err := os.ReadFile(path)
	if err != nil {
		t.Fatal(err)
	}
	schema := string(data)
	if strings.Count(schema, `[2,1]`) != 1 || strings.Count(schema, `"1":"`) != 1 {
		t.Fatalf("unexpected schema: %s", schema)
	}
	schema = strings.Replace(schema, `[2,1]`, `[2,18446744073709551615]`, 1)
	schema = strings.Replace(schema, `"1":"`, `"18446744073709551615":"`, 1)
	if err := os.WriteFile(path, []byte(schema), 0600); err != nil {
		t.Fatal(err)
	}

	db = Open(root)
	defer func() {
		if r := recover(); r != nil {
			t.Errorf("PANIC: %v", r)
		}
	}()

	// evaluated now: a and b match
	search := db.Search(&f201Obj{}, "A", "<", 3)
	if search.Err() != nil || search.Len() != 2 {
		t.Skipf("schema refused: len=%d err=%v", search.Len(), search.Err())
	}

	// does not match, and did not exist
	c := &f201Obj{A: 1000}
	if err := db.InsertOrUpdate(c); err != nil {
		t.Skipf("insertion refused: %v", err)
	}

	objs, err := search.Collect()
	if err != nil {
		// an error is acceptable
		t.Logf("collect: %s", err)
		return
	}

	for _, o := range objs {
		switch o.UUID() {
		case a.UUID(), b.UUID():
		case c.UUID():
			t.Errorf("collect returns the object inserted after the evaluation (A=%d) which does not match A < 3", o.(*f201Obj).A)
		default:
			t.Errorf("collect returns unknown object %s", o.UUID())
		}
	}
}
