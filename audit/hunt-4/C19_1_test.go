package sod

import (
	"fmt"
	"testing"
)

// C19: whatever arguments a search receives (unknown field...), API calls
// return an error or a valid result, they never panic.
// Three kinds of field names make Search panic in reflect:
//  - the name of an unexported field ("secret", "Item.uuid", "When.wall")
//  - a path going through a pointer to a scalar ("P.x")
//  - the promoted name of a field of an embedded pointer to struct ("Name")

type F191Emb struct {
	Name string `sod:"index"`
}

type f191Obj struct {
	Item
	A      string `sod:"index"`
	P      *int
	secret string
}

type f191Ptr struct {
	Item
	*F191Emb
}

func f191Search(db *DB, o Object, field string) (s *Search, err error) {
	defer func() {
		if r := recover(); r != nil {
			err = fmt.Errorf("PANIC: %v", r)
		}
	}()
	s = db.Search(o, field, "=", "x")
	_, _ = s.Collect()
	return
}

func TestFindingC191(t *testing.T) {
	db := Open(t.TempDir())
	defer db.Close()

	if err := db.Create(&f191Obj{}, DefaultSchema); err != nil {
		t.Fatal(err)
	}
	if err := db.Create(&f191Ptr{}, DefaultSchema); err != nil {
		t.Fatal(err)
	}
	if err := db.InsertOrUpdate(&f191Obj{A: "a", secret: "s"}); err != nil {
		t.Fatal(err)
	}
	if err := db.InsertOrUpdate(&f191Ptr{F191Emb: &F191Emb{"x"}}); err != nil {
		t.Fatal(err)
	}

	for _, field := range []string{"secret", "Item.uuid", "P.x"} {
		if _, err := f191Search(db, &f191Obj{}, field); err != nil {
			t.Errorf("Search(f191Obj, %q): %s", field, err)
		}
	}

	// sanity: the full path works
	if s, err := f191Search(db, &f191Ptr{}, "F191Emb.Name"); err != nil || s.Err() != nil || s.Len() != 1 {
		t.Errorf("Search(f191Ptr, F191Emb.Name): %v %v", s, err)
	}
	if _, err := f191Search(db, &f191Ptr{}, "Name"); err != nil {
		t.Errorf("Search(f191Ptr, %q): %s", "Name", err)
	}
}
