package sod

import (
	"math/big"
	"testing"
)

type c142 struct {
	Item
	Amount *big.Int
}

// exported pointer to a type of the standard library with unexported state:
// the stored copy shares the digits of the caller's big.Int
func TestFindingC142(t *testing.T) {
	db := Open(t.TempDir())
	s := DefaultSchema
	s.Cache = true
	if err := db.Create(&c142{}, s); err != nil {
		t.Fatal(err)
	}
	o := &c142{Amount: big.NewInt(12345)}
	if err := db.InsertOrUpdate(o); err != nil {
		t.Fatal(err)
	}
	// caller keeps computing with its own object
	o.Amount.SetInt64(999)

	out, err := db.GetByUUID(&c142{}, o.UUID())
	if err != nil {
		t.Fatal(err)
	}
	if got := out.(*c142).Amount.String(); got != "12345" {
		t.Errorf("stored 12345, caller mutated its own object afterwards, read returns %s", got)
	}

	// and the other way: mutating a read result
	out.(*c142).Amount.SetInt64(7)
	again, err := db.GetByUUID(&c142{}, o.UUID())
	if err != nil {
		t.Fatal(err)
	}
	if got := again.(*c142).Amount.String(); got == "7" {
		t.Errorf("mutating the result of a read changed the next read: %s", got)
	}
}
