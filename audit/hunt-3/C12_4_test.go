package sod

import "testing"

type c124 struct {
	Item
	Name string
}

// Get(in): without cache `in` is filled (and returned), with a cache hit `in`
// is left untouched
func TestFindingC124(t *testing.T) {
	run := func(cache bool) string {
		db := Open(t.TempDir())
		s := DefaultSchema
		s.Cache = cache
		if err := db.Create(&c124{}, s); err != nil {
			t.Fatal(err)
		}
		o := &c124{Name: "x"}
		if err := db.InsertOrUpdate(o); err != nil {
			t.Fatal(err)
		}
		in := &c124{}
		if _, err := db.GetByUUID(in, o.UUID()); err != nil {
			t.Fatal(err)
		}
		return in.Name
	}
	if plain, cached := run(false), run(true); plain != cached {
		t.Errorf("in.Name after GetByUUID(in, uuid): %q without cache, %q with cache", plain, cached)
	}
}
