package sod

import "testing"

type FindingHTTPLog struct {
	Item
	A int
}

type FindingHttpLog struct {
	Item
	B string
}

// with LowercaseNames two distinct types share one directory
func TestFindingC125(t *testing.T) {
	run := func(lower bool) error {
		old := LowercaseNames
		LowercaseNames = lower
		defer func() { LowercaseNames = old }()
		db := Open(t.TempDir())
		if err := db.Create(&FindingHTTPLog{}, DefaultSchema); err != nil {
			t.Fatal(err)
		}
		return db.Create(&FindingHttpLog{}, DefaultSchema)
	}
	if plain, lower := run(false), run(true); (plain == nil) != (lower == nil) {
		t.Errorf("Create of the second collection: %v with type names, %v with lower-case names", plain, lower)
	}
}
