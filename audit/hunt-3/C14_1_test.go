package sod

import (
	"reflect"
	"testing"
)

type c141 struct {
	Item
	Name string
	Skip string `json:"-"`
	tags []string
}

// the cache clones structs by assignment: unexported fields (and exported ones
// JSON ignores) survive in cached reads and unexported slices are shared
func TestFindingC141(t *testing.T) {
	dir := t.TempDir()
	db := Open(dir)
	s := DefaultSchema
	s.Cache = true
	if err := db.Create(&c141{}, s); err != nil {
		t.Fatal(err)
	}
	o := &c141{Name: "n", Skip: "skip", tags: []string{"a"}}
	if err := db.InsertOrUpdate(o); err != nil {
		t.Fatal(err)
	}
	get := func(db *DB) *c141 {
		out, err := db.GetByUUID(&c141{}, o.UUID())
		if err != nil {
			t.Fatal(err)
		}
		return out.(*c141)
	}

	r1 := get(db)
	// mutating the object after storing it
	o.tags[0] = "mutated by caller"
	r2 := get(db)
	if !reflect.DeepEqual(r1.tags, []string{"a"}) && r1.tags != nil {
		t.Errorf("a mutation of the stored object changed a value read before: %v", r1.tags)
	}
	if !reflect.DeepEqual(r1.tags, r2.tags) {
		t.Errorf("later read changed by caller mutation: %v then %v", r1.tags, r2.tags)
	}
	// two reads share memory
	r1 = get(db)
	r2 = get(db)
	if len(r1.tags) > 0 {
		r1.tags[0] = "mutated through read 1"
		if r2.tags[0] == r1.tags[0] {
			t.Errorf("two reads share memory: %v", r2.tags)
		}
	}

	// cached read against a round trip through the file
	cached := get(db)
	if err := db.Close(); err != nil {
		t.Fatal(err)
	}
	file := get(Open(dir))
	if cached.Skip != file.Skip || len(cached.tags) != len(file.tags) {
		t.Errorf("cached read {Skip:%q tags:%v} differs from file round trip {Skip:%q tags:%v}", cached.Skip, cached.tags, file.Skip, file.tags)
	}
}
