package sod

import "testing"

type c112 struct {
	Item
	Name string `sod:"index"`
}

// custom extension without a leading dot: index and files agree, Control
// reports corruption (and a restart + Repair would drop the object)
func TestFindingC112(t *testing.T) {
	dir := t.TempDir()
	db := Open(dir)
	if err := db.Create(&c112{}, NewCustomSchema(FieldDescriptors(&c112{}), "dat")); err != nil {
		t.Fatal(err)
	}
	o := &c112{Name: "x"}
	if err := db.InsertOrUpdate(o); err != nil {
		t.Fatal(err)
	}
	if ok, err := db.Exist(o); !ok || err != nil {
		t.Fatalf("object must exist: %v %v", ok, err)
	}
	if err := db.Control(); err != nil {
		t.Errorf("Control on a consistent collection: %v", err)
	}
	if err := db.Close(); err != nil {
		t.Fatal(err)
	}
	db = Open(dir)
	if _, err := db.Schema(&c112{}); err != nil {
		t.Errorf("first load of a consistent collection: %v", err)
	}
	if err := db.Repair(&c112{}); err != nil {
		t.Fatal(err)
	}
	if n, _ := db.Count(&c112{}); n != 1 {
		t.Errorf("after Repair the object file is still there but Count=%d", n)
	}
}
