package sod

import "testing"

type c113 struct {
	Item
	Name string `sod:"index"`
}

// caller-chosen identifier which is not of UUID form: accepted by every call,
// but Control does not see its file
func TestFindingC113(t *testing.T) {
	dir := t.TempDir()
	db := Open(dir)
	if err := db.Create(&c113{}, DefaultSchema); err != nil {
		t.Fatal(err)
	}
	o := &c113{Name: "x"}
	o.Initialize("customer-42")
	if err := db.InsertOrUpdate(o); err != nil {
		t.Fatal(err)
	}
	if out, err := db.Get(o); err != nil || out.(*c113).Name != "x" {
		t.Fatalf("object must be readable: %v", err)
	}
	if err := db.Control(); err != nil {
		t.Errorf("Control on a consistent collection: %v", err)
	}
	if err := db.Repair(&c113{}); err != nil {
		t.Fatal(err)
	}
	if n := db.Search(&c113{}, "Name", "=", "x").Len(); n != 1 {
		t.Errorf("after Repair search finds %d objects, the file is still there", n)
	}
}
