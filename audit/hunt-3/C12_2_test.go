package sod

import (
	"testing"
	"time"
)

type c122 struct {
	Item
	Name string `sod:"index"`
}

// Insert, Repair, FlushAllAndCommit, Control/Count/Search: Repair forgets the
// objects whose write is pending
func TestFindingC122(t *testing.T) {
	run := func(async bool) (ctrl error, count, found int) {
		db := Open(t.TempDir())
		defer db.Close()
		s := DefaultSchema
		if async {
			s.Asynchrone(1000, time.Hour)
		}
		if err := db.Create(&c122{}, s); err != nil {
			t.Fatal(err)
		}
		if err := db.InsertOrUpdate(&c122{Name: "x"}); err != nil {
			t.Fatal(err)
		}
		if err := db.Repair(&c122{}); err != nil {
			t.Fatal(err)
		}
		if err := db.FlushAllAndCommit(&c122{}); err != nil {
			t.Fatal(err)
		}
		ctrl = db.Control()
		count, _ = db.Count(&c122{})
		found = db.Search(&c122{}, "Name", "=", "x").Len()
		return
	}
	sc, sn, sf := run(false)
	ac, an, af := run(true)
	if (sc == nil) != (ac == nil) || sn != an || sf != af {
		t.Errorf("sync: control=%v count=%d found=%d; async: control=%v count=%d found=%d", sc, sn, sf, ac, an, af)
	}
}
