package sod

import (
	"errors"
	"testing"
	"time"
)

type c152 struct {
	Item
	Name string `sod:"index"`
}

func (o *c152) Validate() error {
	if o.Name == "" {
		return errors.New("name is mandatory")
	}
	return nil
}

// Flush writes whatever object it is given: no Transform, no Validate
func TestFindingC152(t *testing.T) {
	dir := t.TempDir()
	db := Open(dir)
	s := DefaultSchema
	s.Asynchrone(1000, time.Hour)
	if err := db.Create(&c152{}, s); err != nil {
		t.Fatal(err)
	}
	o := &c152{Name: "valid"}
	if err := db.InsertOrUpdate(o); err != nil {
		t.Fatal(err)
	}
	o.Name = ""
	if err := db.InsertOrUpdate(o); !errors.Is(err, ErrInvalidObject) {
		t.Fatalf("invalid object must be rejected: %v", err)
	}
	// the pending write of the valid version is forced to disk
	if err := db.FlushAndCommit(o); err != nil {
		t.Fatal(err)
	}
	if err := db.Close(); err != nil {
		t.Fatal(err)
	}
	db = Open(dir)
	out, err := db.GetByUUID(&c152{}, o.UUID())
	if err != nil {
		t.Fatal(err)
	}
	if out.Validate() != nil {
		t.Errorf("a read returns an object Validate rejects: %+v", out)
	}
}
