package sod

import (
	"testing"
	"time"
)

type c144 struct {
	Item
	Name string `sod:"index"`
}

// Flush(o) / FlushAndCommit(o) write the caller's object, not the stored copy
func TestFindingC144(t *testing.T) {
	dir := t.TempDir()
	db := Open(dir)
	s := DefaultSchema
	s.Asynchrone(1000, time.Hour)
	if err := db.Create(&c144{}, s); err != nil {
		t.Fatal(err)
	}
	o := &c144{Name: "stored"}
	if err := db.InsertOrUpdate(o); err != nil {
		t.Fatal(err)
	}
	// caller goes on with its own object, never inserts it again
	o.Name = "caller memory"
	if err := db.FlushAndCommit(o); err != nil {
		t.Fatal(err)
	}
	if err := db.Close(); err != nil {
		t.Fatal(err)
	}

	db = Open(dir)
	out, err := db.GetByUUID(&c144{}, o.UUID())
	if err != nil {
		t.Fatal(err)
	}
	if got := out.(*c144).Name; got != "stored" {
		t.Errorf("stored %q, read returns %q", "stored", got)
	}
	objs, err := db.Search(&c144{}, "Name", "=", "stored").Collect()
	if err != nil {
		t.Fatal(err)
	}
	for _, r := range objs {
		if r.(*c144).Name != "stored" {
			t.Errorf("search Name=stored returns an object named %q", r.(*c144).Name)
		}
	}
}
