package sod

import (
	"fmt"
	"testing"
)

type c151name string

type c151 struct {
	Item
	Name c151name `sod:"lower"`
}

// a case constraint on a field whose type is a named string type panics
func TestFindingC151(t *testing.T) {
	db := Open(t.TempDir())
	if err := db.Create(&c151{}, DefaultSchema); err != nil {
		t.Fatal(err)
	}
	o := &c151{Name: "MiXed"}
	err := func() (err error) {
		defer func() {
			if r := recover(); r != nil {
				err = fmt.Errorf("panic: %v", r)
			}
		}()
		return db.InsertOrUpdate(o)
	}()
	if err != nil {
		t.Fatalf("insertion: %v", err)
	}
	out, err := db.GetByUUID(&c151{}, o.UUID())
	if err != nil {
		t.Fatal(err)
	}
	if got := out.(*c151).Name; got != "mixed" {
		t.Errorf("stored value is %q, expecting the transformed one", got)
	}
}
