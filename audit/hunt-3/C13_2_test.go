package sod

import "testing"

type c132 struct {
	Item
	A int `sod:"index"`
}

// Collect consumes the limit of the Search: the second Collect of a Limit(2)
// search returns nothing, and Collect after One returns nothing either
func TestFindingC132(t *testing.T) {
	db := Open(t.TempDir())
	if err := db.Create(&c132{}, DefaultSchema); err != nil {
		t.Fatal(err)
	}
	for i := 0; i < 5; i++ {
		if err := db.InsertOrUpdate(&c132{A: i}); err != nil {
			t.Fatal(err)
		}
	}
	s := db.Search(&c132{}, "A", ">=", 0).Limit(2)
	first, err := s.Collect()
	if err != nil || len(first) != 2 {
		t.Fatalf("first Collect: %d %v", len(first), err)
	}
	second, err := s.Collect()
	if err != nil {
		t.Fatal(err)
	}
	if len(second) != 2 {
		t.Errorf("Limit(2) on 5 matches: second Collect returns %d objects", len(second))
	}

	s = db.Search(&c132{}, "A", ">=", 0)
	if _, err = s.One(); err != nil {
		t.Fatal(err)
	}
	all, err := s.Collect()
	if err != nil {
		t.Fatal(err)
	}
	if len(all) != 5 {
		t.Errorf("Collect (no limit asked) after One returns %d objects out of 5", len(all))
	}
}
