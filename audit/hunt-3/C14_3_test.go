package sod

import (
	"fmt"
	"testing"
)

type c143 struct {
	Item
	Any interface{}
}

type c143point struct{ X, Y int }

// interface{} fields: cached read is not what the file round trip returns, and
// a struct value in the interface makes the clone (hence the insertion) panic
func TestFindingC143(t *testing.T) {
	insert := func(cache bool, v interface{}) (res string) {
		defer func() {
			if r := recover(); r != nil {
				res = fmt.Sprintf("panic: %v", r)
			}
		}()
		db := Open(t.TempDir())
		s := DefaultSchema
		s.Cache = cache
		if err := db.Create(&c143{}, s); err != nil {
			t.Fatal(err)
		}
		o := &c143{Any: v}
		if err := db.InsertOrUpdate(o); err != nil {
			return "error: " + err.Error()
		}
		out, err := db.GetByUUID(&c143{}, o.UUID())
		if err != nil {
			return "error: " + err.Error()
		}
		return fmt.Sprintf("%T(%v)", out.(*c143).Any, out.(*c143).Any)
	}

	if plain, cached := insert(false, 5), insert(true, 5); plain != cached {
		t.Errorf("Any=5: read through file gives %s, cached read gives %s", plain, cached)
	}
	if plain, cached := insert(false, c143point{1, 2}), insert(true, c143point{1, 2}); plain != cached {
		t.Errorf("Any=struct: without cache %s, with cache %s", plain, cached)
	}
}
