package sod

import (
	"testing"
	"time"
)

type c131 struct {
	Item
	N int
	T time.Time `sod:"index"`
}

// time.Time values outside of 1678..2262 (the zero time for instance) are
// indexed through UnixNano, which overflows
func TestFindingC131(t *testing.T) {
	db := Open(t.TempDir())
	if err := db.Create(&c131{}, DefaultSchema); err != nil {
		t.Fatal(err)
	}
	stored := []*c131{
		{N: 1}, // zero time, year 1
		{N: 2, T: time.Date(1700, 1, 1, 0, 0, 0, 0, time.UTC)},
		{N: 3, T: time.Date(2000, 1, 1, 0, 0, 0, 0, time.UTC)},
	}
	for _, o := range stored {
		if err := db.InsertOrUpdate(o); err != nil {
			t.Fatal(err)
		}
	}

	// AssignIndex must return the field value of every stored object
	var ts []time.Time
	if err := db.AssignIndex(&c131{}, "T", &ts); err != nil {
		t.Fatal(err)
	}
	for _, o := range stored {
		found := false
		for _, v := range ts {
			found = found || v.Equal(o.T)
		}
		if !found {
			t.Errorf("AssignIndex does not return stored value %s, got %v", o.T, ts)
		}
	}

	// Collect must be in non-increasing order of the field
	objs, err := db.Search(&c131{}, "T", "<", time.Date(2100, 1, 1, 0, 0, 0, 0, time.UTC)).Collect()
	if err != nil {
		t.Fatal(err)
	}
	if len(objs) != 3 {
		t.Fatalf("expecting 3 matches, got %d", len(objs))
	}
	for i := 1; i < len(objs); i++ {
		if prev, cur := objs[i-1].(*c131).T, objs[i].(*c131).T; cur.After(prev) {
			t.Errorf("Collect not in non-increasing order: %s before %s", prev, cur)
		}
	}
}
