package sod

import (
	"path/filepath"
	"testing"
)

type c121 struct {
	Item
	Name string
}

// Insert, Get, Drop, Get: the last Get fails without cache and succeeds with it
func TestFindingC121(t *testing.T) {
	run := func(cache bool) (getErr error) {
		db := Open(filepath.Join(t.TempDir(), "db"))
		s := DefaultSchema
		s.Cache = cache
		if err := db.Create(&c121{}, s); err != nil {
			t.Fatal(err)
		}
		o := &c121{Name: "x"}
		if err := db.InsertOrUpdate(o); err != nil {
			t.Fatal(err)
		}
		if err := db.Drop(); err != nil {
			t.Fatal(err)
		}
		g := &c121{}
		g.Initialize(o.UUID())
		_, getErr = db.Get(g)
		return
	}
	plain, cached := run(false), run(true)
	if (plain == nil) != (cached == nil) {
		t.Errorf("Get after Drop: without cache err=%v, with cache err=%v", plain, cached)
	}
}
