package sod

import "testing"

type c123i struct {
	Item
	S string `sod:"index"`
}

type c123u struct {
	Item
	S string
}

// a string which is not valid UTF-8 is indexed with its bytes but stored (JSON)
// with replacement characters: the indexed search and the scan disagree, and the
// indexed search changes its answer after a restart
func TestFindingC123(t *testing.T) {
	dir := t.TempDir()
	db := Open(dir)
	if err := db.Create(&c123i{}, DefaultSchema); err != nil {
		t.Fatal(err)
	}
	if err := db.Create(&c123u{}, DefaultSchema); err != nil {
		t.Fatal(err)
	}
	v := "caf\xe9" // latin-1 bytes
	if err := db.InsertOrUpdate(&c123i{S: v}); err != nil {
		t.Fatal(err)
	}
	if err := db.InsertOrUpdate(&c123u{S: v}); err != nil {
		t.Fatal(err)
	}
	ni := db.Search(&c123i{}, "S", "=", v).Len()
	nu := db.Search(&c123u{}, "S", "=", v).Len()
	if ni != nu {
		t.Errorf("same data, same search: %d result(s) with index, %d without", ni, nu)
	}
	if err := db.Close(); err != nil {
		t.Fatal(err)
	}
	db = Open(dir)
	if n := db.Search(&c123i{}, "S", "=", v).Len(); n != ni {
		t.Errorf("indexed search found %d before restart and %d after", ni, n)
	}
}
