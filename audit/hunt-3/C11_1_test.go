package sod

import (
	"os"
	"path/filepath"
	"strings"
	"testing"
)

type c111 struct {
	Item
	Name string `sod:"index"`
}

// A schema.json whose index maps two object ids to the same object file is
// internally inconsistent, neither the first load nor Control reports it.
func TestFindingC111(t *testing.T) {
	dir := t.TempDir()
	db := Open(dir)
	if err := db.Create(&c111{}, DefaultSchema); err != nil {
		t.Fatal(err)
	}
	o := &c111{Name: "x"}
	if err := db.InsertOrUpdate(o); err != nil {
		t.Fatal(err)
	}
	if err := db.Close(); err != nil {
		t.Fatal(err)
	}

	p := filepath.Join(dir, "sod.c111", SchemaFilename)
	b, err := os.ReadFile(p)
	if err != nil {
		t.Fatal(err)
	}
	s := string(b)
	s2 := strings.Replace(s, `"index":[["x",0]]`, `"index":[["x",1],["x",0]]`, 1)
	s2 = strings.Replace(s2, `"object-ids":{"0":"`+o.UUID()+`"}`, `"object-ids":{"0":"`+o.UUID()+`","1":"`+o.UUID()+`"}`, 1)
	if s2 == s || strings.Count(s2, o.UUID()) != 2 {
		t.Fatalf("schema file has not the expected layout: %s", s)
	}
	if err := os.WriteFile(p, []byte(s2), 0600); err != nil {
		t.Fatal(err)
	}

	db = Open(dir)
	_, loadErr := db.Schema(&c111{})
	ctrlErr := db.Control()
	n, _ := db.Count(&c111{})
	objs, _ := db.Search(&c111{}, "Name", "=", "x").Collect()
	if loadErr == nil && ctrlErr == nil {
		t.Errorf("index with two ids for one object accepted by first load and Control: Count=%d, Search returns %d objects for 1 file", n, len(objs))
	}
}
