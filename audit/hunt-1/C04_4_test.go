package sod

import "testing"

type fC044 struct {
	Item
	Name string
}

// C04: identifiers chosen by the caller and extensions are not validated.
// An object whose identifier is not formatted as a UUID (or any object of a
// collection whose extension does not start with a dot) is accepted, stored
// and readable, but its file is ignored by the directory scan of control:
// Control fails at once and a new handle reports a corrupted index, Repair
// then drops the object from the index.
func TestFindingC044(t *testing.T) {
	// caller-chosen identifier
	dir := t.TempDir()
	db := Open(dir)
	if err := db.Create(&fC044{}, DefaultSchema); err != nil {
		t.Fatal(err)
	}
	o := &fC044{Name: "x"}
	o.Initialize("order-2024-0001")
	if err := db.InsertOrUpdate(o); err != nil {
		t.Skipf("identifier refused: %s", err)
	}
	if _, err := db.Get(o); err != nil {
		t.Fatal(err)
	}
	if err := db.Close(); err != nil {
		t.Fatal(err)
	}
	db = Open(dir)
	if n, err := db.Count(&fC044{}); err != nil || n != 1 {
		t.Errorf("accepted identifier, after reopen: Count=%d err=%v", n, err)
	}

	// extension without dot
	dir = t.TempDir()
	db = Open(dir)
	if err := db.Create(&fC044{}, Schema{Extension: "_obj"}); err != nil {
		t.Skipf("extension refused: %s", err)
	}
	if err := db.InsertOrUpdate(&fC044{Name: "y"}); err != nil {
		t.Fatal(err)
	}
	if err := db.Close(); err != nil {
		t.Fatal(err)
	}
	db = Open(dir)
	if n, err := db.Count(&fC044{}); err != nil || n != 1 {
		t.Errorf("accepted extension, after reopen: Count=%d err=%v", n, err)
	}
}
