package sod

import (
	"testing"
	"time"
)

type fC021 struct {
	Item
	Name    string
	Seen    time.Time `sod:"index"`
	SeenRaw time.Time
}

// C02: times are compared through UnixNano(), which is only defined between
// 1678 and 2262. The zero time.Time (year 1) wraps to a value in 1754, so it
// is not found before 1700 but after it. Same result on the
// indexed and on the not indexed field.
func TestFindingC021(t *testing.T) {
	db := Open(t.TempDir())
	if err := db.Create(&fC021{}, DefaultSchema); err != nil {
		t.Fatal(err)
	}
	y1800 := time.Date(1800, 1, 1, 0, 0, 0, 0, time.UTC)
	never := &fC021{Name: "never seen"} // zero time: 0001-01-01
	old := &fC021{Name: "old", Seen: y1800, SeenRaw: y1800}
	for _, o := range []*fC021{never, old} {
		if err := db.InsertOrUpdate(o); err != nil {
			t.Fatal(err)
		}
	}

	y1700 := time.Date(1700, 1, 1, 0, 0, 0, 0, time.UTC)
	if !never.Seen.Before(y1700) || old.Seen.Before(y1700) {
		t.Fatal("test is wrong")
	}

	for _, field := range []string{"Seen", "SeenRaw"} {
		// only the object with the zero time is before 1700
		s := db.Search(&fC021{}, field, "<", y1700)
		if s.Err() != nil {
			t.Fatal(s.Err())
		}
		if s.Len() != 1 {
			t.Errorf("%s < 1700-01-01 matches %d object(s), want 1 (year 1 is before 1700)", field, s.Len())
		}
		// and it is not after 1700
		s = db.Search(&fC021{}, field, ">=", y1700)
		if s.Len() != 1 {
			t.Errorf("%s >= 1700-01-01 matches %d object(s), want 1", field, s.Len())
		}
	}
}
