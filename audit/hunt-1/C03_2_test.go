package sod

import "testing"

type fC032 struct {
	Item
	Name string
}

// C03: NewCustomSchema builds the object index from the descriptors it is
// given, at once. A constraint set afterwards on the fields of the schema
// (same map, public API) is stored in schema.json as unique:true but has no
// field index, so it is never enforced, and nothing reports it (control only
// checks that indexes have a field, not that unique fields have an index).
func TestFindingC032(t *testing.T) {
	dir := t.TempDir()
	db := Open(dir)
	s := NewCustomSchema(FieldDescriptors(&fC032{}), DefaultExtension)
	if err := s.Fields.Constraint("Name", Constraints{Unique: true}); err != nil {
		t.Fatal(err)
	}
	if err := db.Create(&fC032{}, s); err != nil {
		t.Skipf("schema refused: %s", err)
	}

	sc, err := db.Schema(&fC032{})
	if err != nil {
		t.Fatal(err)
	}
	if fd := sc.Fields["Name"]; !fd.Constraints.Unique {
		t.Skip("field is not declared unique")
	}

	if err := db.InsertOrUpdate(&fC032{Name: "a"}); err != nil {
		t.Fatal(err)
	}
	if err := db.InsertOrUpdate(&fC032{Name: "a"}); !IsUnique(err) {
		t.Errorf("field declared unique in the schema, duplicate accepted (err=%v)", err)
	}
	if err := db.Control(); err != nil {
		t.Logf("control: %s", err)
	}

	// same after a restart
	if err := db.Close(); err != nil {
		t.Fatal(err)
	}
	db = Open(dir)
	if err := db.InsertOrUpdate(&fC032{Name: "a"}); !IsUnique(err) {
		t.Errorf("after reopen: duplicate accepted (err=%v)", err)
	}
}
