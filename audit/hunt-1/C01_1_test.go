package sod

import "testing"

type fC011 struct {
	Item
	Name string `sod:"unique"`
}

// C01 (and C03): Drop removes every file but the handle keeps schema, index
// and cache in memory, so read paths keep reporting dropped objects and their
// unique values stay taken.
func TestFindingC011(t *testing.T) {
	db := Open(t.TempDir())
	if err := db.Create(&fC011{}, DefaultSchema); err != nil {
		t.Fatal(err)
	}
	o := &fC011{Name: "a"}
	if err := db.InsertOrUpdate(o); err != nil {
		t.Fatal(err)
	}
	if err := db.Drop(); err != nil {
		t.Fatal(err)
	}

	// everything has been deleted: either the collection is gone (error) or
	// it is empty, it cannot still hold one object
	if n, err := db.Count(&fC011{}); err == nil && n != 0 {
		t.Errorf("Count reports %d object(s) after Drop", n)
	}
	if s := db.Search(&fC011{}, "Name", "=", "a"); s.Err() == nil && s.Len() != 0 {
		t.Errorf("Search still finds %d object(s) after Drop", s.Len())
	}
	// Get agrees that the object is gone
	if _, err := db.Get(o); err == nil {
		t.Errorf("Get finds a dropped object")
	}

	// the handle accepts Create again (returns nil), so it is usable: the
	// value released by the deletion of everything must be reusable
	if err := db.Create(&fC011{}, DefaultSchema); err != nil {
		t.Skipf("collection cannot be re-created after Drop: %s", err)
	}
	if err := db.InsertOrUpdate(&fC011{Name: "a"}); IsUnique(err) {
		t.Errorf("value of a dropped object is still taken: %s", err)
	}
	if err := db.Control(); err != nil {
		t.Errorf("Control after Drop+Create+Insert: %s", err)
	}
}
