package sod

import "testing"

type fC023 struct {
	Item
	Code    string `sod:"index,upper"`
	CodeRaw string `sod:"upper"`
}

// C02: the case transformation of a field is also applied to the search
// value of the ~= operator, i.e. to the regular expression itself: `\d` is
// turned into `\D` (and `(?i)` into the invalid `(?I)`), which changes what
// the expression matches.
func TestFindingC023(t *testing.T) {
	db := Open(t.TempDir())
	if err := db.Create(&fC023{}, DefaultSchema); err != nil {
		t.Fatal(err)
	}
	if err := db.InsertOrUpdate(&fC023{Code: "123", CodeRaw: "123"}); err != nil {
		t.Fatal(err)
	}
	if err := db.InsertOrUpdate(&fC023{Code: "abc", CodeRaw: "abc"}); err != nil {
		t.Fatal(err)
	}

	for _, field := range []string{"Code", "CodeRaw"} {
		// stored values are "123" and "ABC": only "123" is made of digits
		s := db.Search(&fC023{}, field, "~=", `^\d+$`)
		if s.Err() != nil {
			t.Errorf("%s: %s", field, s.Err())
			continue
		}
		objs, err := s.Collect()
		if err != nil {
			t.Fatal(err)
		}
		if len(objs) != 1 {
			t.Errorf(`%s ~= ^\d+$ matches %d object(s), want 1`, field, len(objs))
		}
		for _, o := range objs {
			if o.(*fC023).Code != "123" {
				t.Errorf(`%s ~= ^\d+$ returns the object holding %q`, field, o.(*fC023).Code)
			}
		}
	}
}
