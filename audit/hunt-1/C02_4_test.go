package sod

import (
	"testing"
	"time"
)

type fC024 struct {
	Item
	Name    string
	Timeout time.Duration
}

// C02: a field whose type is a named integer type (time.Duration here) has
// an integer ordering but cannot be searched at all: every Search on it ends
// with "unknown key type", with a value of the type of the field as well as
// with a plain int64.
func TestFindingC024(t *testing.T) {
	db := Open(t.TempDir())
	if err := db.Create(&fC024{}, DefaultSchema); err != nil {
		t.Fatal(err)
	}
	for _, d := range []time.Duration{time.Second, time.Minute} {
		if err := db.InsertOrUpdate(&fC024{Timeout: d}); err != nil {
			t.Fatal(err)
		}
	}

	s := db.Search(&fC024{}, "Timeout", ">", 10*time.Second)
	if s.Err() != nil {
		t.Errorf("Timeout > 10s: %s", s.Err())
	} else if s.Len() != 1 {
		t.Errorf("Timeout > 10s matches %d object(s), want 1", s.Len())
	}

	s = db.Search(&fC024{}, "Timeout", ">", int64(10*time.Second))
	if s.Err() != nil {
		t.Errorf("Timeout > int64(10s): %s", s.Err())
	}
}
