package sod

import "testing"

type fC041 struct {
	Item
	Name string `sod:"unique"`
}

// C04: synchronous mode, no Close. Flush is a public call which completes
// without error on a synchronous collection: it rewrites the object file,
// creates the .dirty marker and does not commit, so a new handle opened after
// the call finds a collection reported as corrupted.
// Flush also writes the object it is given, not an accepted one: it stores
// objects which were never inserted and values no index knows about.
func TestFindingC041(t *testing.T) {
	dir := t.TempDir()
	db := Open(dir)
	if err := db.Create(&fC041{}, DefaultSchema); err != nil {
		t.Fatal(err)
	}
	o := &fC041{Name: "a"}
	if err := db.InsertOrUpdate(o); err != nil {
		t.Fatal(err)
	}
	if err := db.Flush(o); err != nil {
		t.Fatalf("Flush: %s", err)
	}

	// the handle is dropped without Close
	db2 := Open(dir)
	n, err := db2.Count(&fC041{})
	if err != nil {
		t.Errorf("new handle after a completed Flush in synchronous mode: %s", err)
	} else if n != 1 {
		t.Errorf("Count=%d", n)
	}
}
