package sod

import "testing"

type fC031 struct {
	Item
	Email *string `sod:"unique"`
}

// C03: the sod tag of a field which is a pointer to a scalar is dropped
// without any error (an unindexable slice field is refused by Create, this one
// is not): the field is declared unique, Create succeeds, and two objects
// holding the same value are accepted.
func TestFindingC031(t *testing.T) {
	db := Open(t.TempDir())
	if err := db.Create(&fC031{}, DefaultSchema); err != nil {
		// refusing the declaration would be fine
		t.Skipf("declaration refused: %s", err)
	}
	m1, m2 := "a@example.org", "a@example.org"
	if err := db.InsertOrUpdate(&fC031{Email: &m1}); err != nil {
		t.Fatal(err)
	}
	err := db.InsertOrUpdate(&fC031{Email: &m2})
	if !IsUnique(err) {
		n, _ := db.Count(&fC031{})
		t.Errorf("second object with the same unique Email accepted (err=%v), %d objects stored", err, n)
	}
}
