package sod

import (
	"reflect"
	"testing"
)

type fC014 struct {
	Item
	Tags map[string]int
	Note string `json:"note,omitempty"`
}

// C01: without cache, Get(in) unmarshals the file INTO the object given by
// the caller: what the file does not overwrite (keys of a map, fields omitted
// by omitempty) survives, so Get reports values which were never accepted.
// With the cache enabled the same call returns the accepted values.
func TestFindingC014(t *testing.T) {
	db := Open(t.TempDir())
	if err := db.Create(&fC014{}, DefaultSchema); err != nil {
		t.Fatal(err)
	}
	o := &fC014{Tags: map[string]int{"a": 1}}
	if err := db.InsertOrUpdate(o); err != nil {
		t.Fatal(err)
	}

	// local modifications which are never saved
	o.Tags["b"] = 2
	o.Note = "never saved"

	// reloading the object from the database
	got, err := db.Get(o)
	if err != nil {
		t.Fatal(err)
	}
	g := got.(*fC014)
	if !reflect.DeepEqual(g.Tags, map[string]int{"a": 1}) {
		t.Errorf("Get reports Tags=%v, last accepted value is map[a:1]", g.Tags)
	}
	if g.Note != "" {
		t.Errorf("Get reports Note=%q, last accepted value is empty", g.Note)
	}
}
