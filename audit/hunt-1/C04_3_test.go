package sod

import "testing"

type fC043 struct {
	Item
	Key string `sod:"unique"`
}

// C04 (and C03): strings which are not valid UTF-8 are legal Go strings and
// are accepted, indexed and compared bytewise by the live handle, but JSON
// encoding replaces every invalid byte by U+FFFD in the object files and in
// schema.json. After Close and reopen the values have changed: searches on
// the original value find nothing, and two objects whose keys were different
// now hold the same value in a unique field.
func TestFindingC043(t *testing.T) {
	dir := t.TempDir()
	db := Open(dir)
	if err := db.Create(&fC043{}, DefaultSchema); err != nil {
		t.Fatal(err)
	}
	k1, k2 := "key-\xff", "key-\xfe"
	for _, k := range []string{k1, k2} {
		if err := db.InsertOrUpdate(&fC043{Key: k}); err != nil {
			t.Skipf("value refused: %s", err)
		}
	}

	before := db.Search(&fC043{}, "Key", "=", k1).Len()
	if before != 1 {
		t.Fatalf("before Close: %d match(es)", before)
	}
	if err := db.Close(); err != nil {
		t.Fatal(err)
	}

	db = Open(dir)
	s := db.Search(&fC043{}, "Key", "=", k1)
	if s.Err() != nil {
		t.Fatal(s.Err())
	}
	if s.Len() != before {
		t.Errorf("Key = %q: %d match before Close, %d after reopen", k1, before, s.Len())
	}

	all, err := db.All(&fC043{})
	if err != nil {
		t.Fatal(err)
	}
	seen := map[string]bool{}
	for _, o := range all {
		k := o.(*fC043).Key
		if seen[k] {
			t.Errorf("two stored objects hold the value %q in a unique field", k)
		}
		seen[k] = true
	}
}
