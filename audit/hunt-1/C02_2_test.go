package sod

import "testing"

type fC022 struct {
	Item
	Kind string `sod:"index"`
}

// C02: One() (and AssignOne/AssignUnique) sets the limit of the Search to 1
// and collect() consumes the limit for good: after One(), Collect() on the
// same Search returns nothing although Len() still reports every match.
// (Same cause: Limit(2) then Collect() twice returns 2 objects then 0.)
func TestFindingC022(t *testing.T) {
	db := Open(t.TempDir())
	if err := db.Create(&fC022{}, DefaultSchema); err != nil {
		t.Fatal(err)
	}
	for i := 0; i < 3; i++ {
		if err := db.InsertOrUpdate(&fC022{Kind: "k"}); err != nil {
			t.Fatal(err)
		}
	}

	s := db.Search(&fC022{}, "Kind", "=", "k")
	if s.Len() != 3 {
		t.Fatalf("Len=%d", s.Len())
	}
	if _, err := s.One(); err != nil {
		t.Fatal(err)
	}
	all, err := s.Collect()
	if err != nil {
		t.Fatal(err)
	}
	if len(all) != s.Len() {
		t.Errorf("Collect after One returns %d object(s), Len reports %d matches", len(all), s.Len())
	}

	// same cause, without One
	s = db.Search(&fC022{}, "Kind", "=", "k").Limit(2)
	first, _ := s.Collect()
	second, _ := s.Collect()
	if len(first) != 2 || len(second) != 2 {
		t.Errorf("Limit(2): first Collect returns %d, second Collect returns %d", len(first), len(second))
	}
}
