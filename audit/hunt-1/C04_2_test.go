package sod

import (
	"os"
	"path/filepath"
	"testing"
	"time"
)

type fC042 struct {
	Item
	Name  string
	Value int `sod:"index"`
}

// C04: asynchronous mode, transient storage error during a flush. The flush
// forgets the pending write although it failed (objectMap.flush deletes the
// entry whatever writeObject returned), then commits the schema and, since
// nothing is pending anymore, removes the .dirty marker. Later flushes and
// Close succeed, and the new handle silently holds an index entry (Value=5)
// for a file which still says Value=1: the accepted write is lost and nothing
// reports a corruption.
func TestFindingC042(t *testing.T) {
	dir := t.TempDir()
	db := Open(dir)
	s := DefaultSchema
	s.Asynchrone(1000, time.Hour) // the background routine stays out of the way
	if err := db.Create(&fC042{}, s); err != nil {
		t.Fatal(err)
	}
	o := &fC042{Name: "o", Value: 1}
	if err := db.InsertOrUpdate(o); err != nil {
		t.Fatal(err)
	}
	if err := db.FlushAllAndCommit(&fC042{}); err != nil {
		t.Fatal(err)
	}

	// a directory where the temporary file of the object is expected
	block := filepath.Join(dir, "sod.fC042", ".tmp-"+o.UUID()+".json")
	if err := os.MkdirAll(filepath.Join(block, "x"), 0700); err != nil {
		t.Fatal(err)
	}
	o.Value = 5
	if err := db.InsertOrUpdate(o); err != nil {
		t.Fatal(err)
	}
	if err := db.FlushAllAndCommit(&fC042{}); err == nil {
		t.Skip("storage error not triggered")
	}
	// the storage works again
	if err := os.RemoveAll(block); err != nil {
		t.Fatal(err)
	}

	// what the old handle observes
	got, err := db.GetByUUID(&fC042{}, o.UUID())
	if err != nil {
		t.Fatal(err)
	}
	before := got.(*fC042).Value

	if err := db.Close(); err != nil {
		t.Fatalf("Close: %s", err)
	}

	db = Open(dir)
	if _, err := db.Count(&fC042{}); err != nil {
		// reporting the problem would be acceptable
		t.Skipf("reported: %s", err)
	}
	got, err = db.GetByUUID(&fC042{}, o.UUID())
	if err != nil {
		t.Fatal(err)
	}
	after := got.(*fC042).Value
	if after != before {
		t.Errorf("old handle observed Value=%d, Close returned nil, new handle observes Value=%d", before, after)
	}
	// index and files of the new handle do not agree either
	objs, err := db.Search(&fC042{}, "Value", "=", 5).Collect()
	if err != nil {
		t.Fatal(err)
	}
	for _, r := range objs {
		if v := r.(*fC042).Value; v != 5 {
			t.Errorf("Search Value=5 returns an object holding Value=%d", v)
		}
	}
	if err := db.Control(); err != nil {
		t.Logf("control: %s", err)
	}
}
