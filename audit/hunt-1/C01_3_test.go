package sod

import (
	"os"
	"path/filepath"
	"testing"
)

type fC013 struct {
	Item
	Name string `sod:"unique"`
}

// C01: storage error at commit time (a directory where the temporary schema
// file is expected). InsertOrUpdate returns an error, i.e. the write is not
// accepted, but the object stays indexed, on disk and visible by every read
// path (a failing object write is rolled back, a failing commit is not).
func TestFindingC013(t *testing.T) {
	dir := t.TempDir()
	db := Open(dir)
	if err := db.Create(&fC013{}, DefaultSchema); err != nil {
		t.Fatal(err)
	}
	if err := db.InsertOrUpdate(&fC013{Name: "first"}); err != nil {
		t.Fatal(err)
	}

	// schema.json is written through .tmp-schema.json
	block := filepath.Join(dir, "sod.fC013", ".tmp-schema.json")
	if err := os.MkdirAll(filepath.Join(block, "x"), 0700); err != nil {
		t.Fatal(err)
	}

	o := &fC013{Name: "second"}
	err := db.InsertOrUpdate(o)
	if err == nil {
		t.Skip("storage error not triggered")
	}

	// the call failed: the set of stored objects must be unchanged
	if n, _ := db.Count(&fC013{}); n != 1 {
		t.Errorf("InsertOrUpdate failed (%s) but Count=%d, want 1", err, n)
	}
	if ok, _ := db.Exist(o); ok {
		t.Errorf("InsertOrUpdate failed but Exist reports the object")
	}
	if _, gerr := db.Get(o); gerr == nil {
		t.Errorf("InsertOrUpdate failed but Get returns the object")
	}
	if l := db.Search(&fC013{}, "Name", "=", "second").Len(); l != 0 {
		t.Errorf("InsertOrUpdate failed but Search finds %d object", l)
	}
}
