package sod

import (
	"testing"
	"time"
)

type fC012 struct {
	Item
	Name    string
	Payload interface{}
}

// C01: with the cache enabled, an object holding a struct value (time.Time
// here) in an interface{} field makes InsertOrUpdate panic in CloneObject
// AFTER the object has been indexed: the call did not complete but Count
// reports the object, while Get cannot find it.
func TestFindingC012(t *testing.T) {
	db := Open(t.TempDir())
	s := DefaultSchema
	s.Cache = true
	if err := db.Create(&fC012{}, s); err != nil {
		t.Fatal(err)
	}

	o := &fC012{Name: "x", Payload: time.Unix(1, 0)}
	var insErr error
	panicked := func() (p interface{}) {
		defer func() { p = recover() }()
		insErr = db.InsertOrUpdate(o)
		return
	}()

	if panicked != nil {
		t.Errorf("InsertOrUpdate panicked: %v", panicked)
	}

	n, err := db.Count(&fC012{})
	if err != nil {
		t.Fatal(err)
	}
	_, gerr := db.Get(o)

	accepted := panicked == nil && insErr == nil
	switch {
	case accepted && (n != 1 || gerr != nil):
		t.Errorf("accepted object: Count=%d Get=%v", n, gerr)
	case !accepted && (n != 0 || gerr == nil):
		t.Errorf("object of a call which did not succeed: Count=%d (want 0) Get err=%v", n, gerr)
	}
}
