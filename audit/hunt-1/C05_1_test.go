package sod

import (
	"testing"
	"time"
)

type fC051 struct {
	Item
	Name string `sod:"unique"`
}

// C05: asynchronous mode, crash in the middle of a flush. Pending objects are
// written one by one, in map order. With A renamed from "a" to "b" and a new
// B named "a" both pending, a crash after the write of B and before the write
// of A leaves two files holding Name="a". The crash is detected (.dirty), but
// Repair cannot converge: it fails with the uniqueness error, every time, and
// Control keeps failing.
// The state in the middle of the flush is reproduced with the public
// Flush(b), which writes one pending object exactly as flushAll would do
// first; the handle is then dropped without Close.
func TestFindingC051(t *testing.T) {
	dir := t.TempDir()
	db := Open(dir)
	s := DefaultSchema
	s.Asynchrone(1000, time.Hour) // the background routine stays out of the way
	if err := db.Create(&fC051{}, s); err != nil {
		t.Fatal(err)
	}
	a := &fC051{Name: "a"}
	if err := db.InsertOrUpdate(a); err != nil {
		t.Fatal(err)
	}
	if err := db.FlushAllAndCommit(&fC051{}); err != nil {
		t.Fatal(err)
	}

	// two accepted writes, both pending
	a.Name = "b"
	if err := db.InsertOrUpdate(a); err != nil {
		t.Fatal(err)
	}
	b := &fC051{Name: "a"}
	if err := db.InsertOrUpdate(b); err != nil {
		t.Fatal(err)
	}
	// the flush starts with b ... and the process dies
	if err := db.Flush(b); err != nil {
		t.Fatal(err)
	}

	db = Open(dir)
	_, err := db.Count(&fC051{})
	if err == nil {
		t.Fatal("expected the crash to be detected")
	}
	if !IsIndexCorrupted(err) {
		t.Fatalf("unexpected error: %s", err)
	}
	if err := db.Repair(&fC051{}); err != nil {
		t.Errorf("Repair: %s", err)
	}
	if err := db.Control(); err != nil {
		t.Errorf("Control after Repair: %s", err)
	}
}
