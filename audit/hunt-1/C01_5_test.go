package sod

import "testing"

type fC015 struct {
	Item
	Name string
}

// C01: identifiers are not checked: looking up the identifier "schema", which
// was never stored, succeeds because <collection>/schema.json is taken for
// the file of an object.
func TestFindingC015(t *testing.T) {
	db := Open(t.TempDir())
	if err := db.Create(&fC015{}, DefaultSchema); err != nil {
		t.Fatal(err)
	}
	if err := db.InsertOrUpdate(&fC015{Name: "x"}); err != nil {
		t.Fatal(err)
	}

	if o, err := db.GetByUUID(&fC015{}, "schema"); err == nil {
		t.Errorf("GetByUUID of a never stored identifier returns %v instead of a not-found error", o)
	}
	probe := &fC015{}
	probe.Initialize("schema")
	if ok, err := db.Exist(probe); ok && err == nil {
		t.Errorf("Exist reports a never stored identifier")
	}
}
