package sod

import (
	"os"
	"path/filepath"
	"testing"
	"time"
)

type fC106 struct {
	Item
	N int
}

// Same cause as C10_1, on a single collection: asynchronous writes are
// switched on, off, and on again by Create, with the Schema values the
// application keeps for that purpose. After the second switch-on an accepted
// write must reach the disk once the timeout elapsed, without further calls.
func TestFindingC106(t *testing.T) {
	root := t.TempDir()
	db := Open(root)
	defer db.Close()

	on := DefaultSchema
	on.Asynchrone(1000, 200*time.Millisecond)
	off := DefaultSchema

	if err := db.Create(&fC106{}, on); err != nil {
		t.Fatal(err)
	}
	if err := db.InsertOrUpdate(&fC106{N: 1}); err != nil {
		t.Fatal(err)
	}
	if err := db.Create(&fC106{}, off); err != nil {
		t.Fatal(err)
	}
	// the flusher notices that async writes are off and returns
	time.Sleep(500 * time.Millisecond)
	if err := db.Create(&fC106{}, on); err != nil {
		t.Fatal(err)
	}

	o := &fC106{N: 2}
	if err := db.InsertOrUpdate(o); err != nil {
		t.Fatal(err)
	}

	// 15 times the timeout, no call on the handle in between
	time.Sleep(3 * time.Second)

	p := filepath.Join(root, "sod.fC106", o.UUID()+".json")
	if _, err := os.Stat(p); err != nil {
		t.Errorf("accepted write not flushed after timeout: %s", err)
	}
}
