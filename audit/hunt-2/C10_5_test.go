package sod

import (
	"os"
	"path/filepath"
	"testing"
	"time"
)

type fC105 struct {
	Item
	N int
}

// The whole database is dropped while an asynchronous write is pending: the
// object is deleted with everything else and must not appear on disk
// afterwards.
func TestFindingC105(t *testing.T) {
	root := filepath.Join(t.TempDir(), "db")

	s := DefaultSchema
	s.Asynchrone(1000, 200*time.Millisecond)

	db := Open(root)
	defer db.Close()
	if err := db.Create(&fC105{}, s); err != nil {
		t.Fatal(err)
	}

	o := &fC105{N: 1}
	if err := db.InsertOrUpdate(o); err != nil {
		t.Fatal(err)
	}
	if err := db.Drop(); err != nil {
		t.Fatal(err)
	}

	time.Sleep(2 * time.Second)

	p := filepath.Join(root, "sod.fC105", o.UUID()+".json")
	if _, err := os.Stat(p); err == nil {
		t.Errorf("object dropped while its write was pending is on disk: %s", p)
	}
}
