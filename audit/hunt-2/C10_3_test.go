package sod

import (
	"testing"
	"time"
)

type fC103 struct {
	Item
	Name string `sod:"index"`
}

// Repair is called on a healthy collection while an accepted asynchronous
// write is still pending. The accepted write must stay visible to every read
// on the handle, and after Close the collection must be complete on disk with
// its schema committed.
func TestFindingC103(t *testing.T) {
	root := t.TempDir()

	s := DefaultSchema
	s.Asynchrone(1000, time.Hour)

	db := Open(root)
	if err := db.Create(&fC103{}, s); err != nil {
		t.Fatal(err)
	}

	o := &fC103{Name: "pending"}
	if err := db.InsertOrUpdate(o); err != nil {
		t.Fatal(err)
	}

	if n, err := db.Count(&fC103{}); err != nil || n != 1 {
		t.Fatalf("before Repair: count=%d err=%v", n, err)
	}

	if err := db.Repair(&fC103{}); err != nil {
		t.Fatalf("Repair: %s", err)
	}

	if n, err := db.Count(&fC103{}); err != nil || n != 1 {
		t.Errorf("after Repair: accepted write not visible through Count: count=%d err=%v", n, err)
	}
	if n := db.Search(&fC103{}, "Name", "=", "pending").Len(); n != 1 {
		t.Errorf("after Repair: accepted write not visible through Search: %d results", n)
	}
	if all, err := db.All(&fC103{}); err != nil || len(all) != 1 {
		t.Errorf("after Repair: accepted write not visible through All: len=%d err=%v", len(all), err)
	}

	if err := db.Close(); err != nil {
		t.Errorf("Close: %s", err)
	}

	// everything accepted is on disk and the schema is committed
	db = Open(root)
	defer db.Close()
	if n, err := db.Count(&fC103{}); err != nil || n != 1 {
		t.Errorf("after Close and Open: count=%d err=%v", n, err)
	}
}
