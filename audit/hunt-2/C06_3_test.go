package sod

import (
	"fmt"
	"testing"
)

type fC063Inner struct {
	A int
	B string
}

type fC063 struct {
	Item
	Name  string `sod:"unique"`
	Extra interface{}
}

// On a cached collection, an object holding a struct value in an interface{}
// field (legal, serialisable, accepted when the cache is off) is written.
// Either the write succeeds and the object can be read, or it fails and
// nothing of it is observable.
func TestFindingC063(t *testing.T) {
	db := Open(t.TempDir())
	defer db.Close()

	s := DefaultSchema
	s.Cache = true
	if err := db.Create(&fC063{}, s); err != nil {
		t.Fatal(err)
	}

	o := &fC063{Name: "x", Extra: fC063Inner{1, "b"}}
	err := func() (err error) {
		defer func() {
			if r := recover(); r != nil {
				err = fmt.Errorf("panic: %v", r)
			}
		}()
		return db.InsertOrUpdate(o)
	}()

	if err == nil {
		if _, gerr := db.Get(o); gerr != nil {
			t.Errorf("successful write cannot be read: %s", gerr)
		}
		return
	}
	t.Logf("InsertOrUpdate failed: %s", err)

	// failed write: no trace through any read path
	if n, cerr := db.Count(&fC063{}); cerr != nil || n != 0 {
		t.Errorf("failed write left a trace: count=%d err=%v", n, cerr)
	}
	if n := db.Search(&fC063{}, "Name", "=", "x").Len(); n != 0 {
		t.Errorf("failed write left a trace: found by Search")
	}
	if all, aerr := db.All(&fC063{}); aerr != nil || len(all) != 0 {
		t.Errorf("failed write left a trace: All returns len=%d err=%v", len(all), aerr)
	}
	// the unique value is still free
	if ierr := db.InsertOrUpdate(&fC063{Name: "x"}); ierr != nil {
		t.Errorf("failed write left a trace: unique value taken: %s", ierr)
	}
}
