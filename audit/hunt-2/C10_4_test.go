package sod

import (
	"os"
	"path/filepath"
	"testing"
	"time"
)

type fC104 struct {
	Item
	N int
}

// An object is deleted while its asynchronous write is pending, then the
// (now useless) Flush of that object is issued, as a goroutine flushing the
// objects it wrote would do. The deleted object must never appear on disk.
func TestFindingC104(t *testing.T) {
	root := t.TempDir()

	s := DefaultSchema
	s.Asynchrone(1000, time.Hour)

	db := Open(root)
	if err := db.Create(&fC104{}, s); err != nil {
		t.Fatal(err)
	}

	o := &fC104{N: 1}
	if err := db.InsertOrUpdate(o); err != nil {
		t.Fatal(err)
	}
	if err := db.Delete(o); err != nil {
		t.Fatal(err)
	}
	if err := db.Flush(o); err != nil {
		t.Fatal(err)
	}

	p := filepath.Join(root, "sod.fC104", o.UUID()+".json")
	if _, err := os.Stat(p); err == nil {
		t.Errorf("object deleted while its write was pending is on disk: %s", p)
	}
	if ok, err := db.Exist(o); ok || err != nil {
		t.Errorf("deleted object exists: ok=%t err=%v", ok, err)
	}

	if err := db.Close(); err != nil {
		t.Errorf("Close: %s", err)
	}
	db = Open(root)
	defer db.Close()
	if n, err := db.Count(&fC104{}); err != nil || n != 0 {
		t.Errorf("after Close and Open: count=%d err=%v", n, err)
	}
}
