package sod

import (
	"os"
	"path/filepath"
	"testing"
)

type fC062 struct {
	Item
	Name string `sod:"unique"`
}

// A storage error hits the second object of a batch of three (a directory sits
// where the temporary file of this object is expected). InsertOrUpdateMany
// returns the error: either none of the objects is observable (all or nothing),
// or Control reports the collection as corrupted.
func TestFindingC062(t *testing.T) {
	root := t.TempDir()
	db := Open(root)
	defer db.Close()

	if err := db.Create(&fC062{}, DefaultSchema); err != nil {
		t.Fatal(err)
	}

	a, b, c := &fC062{Name: "a"}, &fC062{Name: "b"}, &fC062{Name: "c"}
	a.Initialize("aaaaaaaa-0000-0000-0000-000000000001")
	b.Initialize("bbbbbbbb-0000-0000-0000-000000000002")
	c.Initialize("cccccccc-0000-0000-0000-000000000003")

	obstacle := filepath.Join(root, "sod.fC062", ".tmp-"+b.UUID()+".json")
	if err := os.MkdirAll(obstacle, 0700); err != nil {
		t.Fatal(err)
	}
	if err := db.Control(); err != nil {
		t.Fatalf("Control before the failing call: %s", err)
	}

	n, err := db.InsertOrUpdateMany(a, b, c)
	if err == nil {
		t.Skip("storage error could not be provoked")
	}
	t.Logf("InsertOrUpdateMany failed as expected: n=%d err=%s", n, err)

	if cerr := db.Control(); cerr != nil {
		// reported as corrupted: allowed by the property
		t.Logf("Control reports: %s", cerr)
		return
	}

	if cnt, _ := db.Count(&fC062{}); cnt != 0 {
		t.Errorf("failed batch partially applied, Control silent: count=%d, expected 0", cnt)
	}
	if ok, _ := db.Exist(a); ok {
		t.Errorf("failed batch partially applied, Control silent: first object exists")
	}
	if l := db.Search(&fC062{}, "Name", "=", "a").Len(); l != 0 {
		t.Errorf("failed batch partially applied, Control silent: first object found by Search")
	}
}
