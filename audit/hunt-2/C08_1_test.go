package sod

import (
	"sync"
	"testing"
)

type fC081 struct {
	Item
	N int `sod:"index"`
}

// Run with -race. Two goroutines collect the results of one Search at the
// same time (both calls only read the database). Collect decrements the limit
// stored in the Search while it holds the read lock only: the race detector
// reports the unsynchronised write and fails the test.
func TestFindingC081(t *testing.T) {
	db := Open(t.TempDir())
	defer db.Close()

	if err := db.Create(&fC081{}, DefaultSchema); err != nil {
		t.Fatal(err)
	}
	for i := 0; i < 50; i++ {
		if err := db.InsertOrUpdate(&fC081{N: i}); err != nil {
			t.Fatal(err)
		}
	}

	s := db.Search(&fC081{}, "N", ">=", 0)
	if s.Err() != nil {
		t.Fatal(s.Err())
	}

	var wg sync.WaitGroup
	for g := 0; g < 4; g++ {
		wg.Add(1)
		go func() {
			defer wg.Done()
			for i := 0; i < 20; i++ {
				if out, err := s.Collect(); err != nil || len(out) != 50 {
					t.Errorf("Collect: len=%d err=%v", len(out), err)
					return
				}
			}
		}()
	}
	wg.Wait()
}
