package sod

import (
	"os"
	"path/filepath"
	"testing"
)

type fC061 struct {
	Item
	Name string `sod:"unique"`
}

// A storage error hits the commit of the schema which ends InsertOrUpdate (a
// directory sits where the temporary file of schema.json is expected, the
// object file itself can be written). InsertOrUpdate returns the error: either
// nothing is observable of the object, or Control reports the collection as
// corrupted.
func TestFindingC061(t *testing.T) {
	root := t.TempDir()
	db := Open(root)
	defer db.Close()

	if err := db.Create(&fC061{}, DefaultSchema); err != nil {
		t.Fatal(err)
	}
	if err := db.InsertOrUpdate(&fC061{Name: "first"}); err != nil {
		t.Fatal(err)
	}

	// storage failure: schema.json cannot be rewritten any more
	obstacle := filepath.Join(root, "sod.fC061", ".tmp-schema.json")
	if err := os.Mkdir(obstacle, 0700); err != nil {
		t.Fatal(err)
	}
	if err := db.Control(); err != nil {
		t.Fatalf("Control before the failing call: %s", err)
	}

	o := &fC061{Name: "second"}
	err := db.InsertOrUpdate(o)
	if err == nil {
		t.Skip("storage error could not be provoked")
	}
	t.Logf("InsertOrUpdate failed as expected: %s", err)

	if cerr := db.Control(); cerr != nil {
		// reported as corrupted: allowed by the property
		t.Logf("Control reports: %s", cerr)
		return
	}

	// Control says the database is fine: the failed write must have left no trace
	if n, _ := db.Count(&fC061{}); n != 1 {
		t.Errorf("failed InsertOrUpdate left a trace, Control silent: count=%d, expected 1", n)
	}
	if n := db.Search(&fC061{}, "Name", "=", "second").Len(); n != 0 {
		t.Errorf("failed InsertOrUpdate left a trace, Control silent: object found by Search")
	}
	if ok, _ := db.Exist(o); ok {
		t.Errorf("failed InsertOrUpdate left a trace, Control silent: object exists")
	}
}
