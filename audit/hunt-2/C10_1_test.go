package sod

import (
	"os"
	"path/filepath"
	"testing"
	"time"
)

type fC101A struct {
	Item
	N int
}

type fC101B struct {
	Item
	N int
}

// One Schema value with asynchronous writes is used to create two
// collections on one handle (the usual way to configure several collections
// alike). The pending write of the second collection must reach the disk once
// the timeout elapsed, without any further call.
func TestFindingC101(t *testing.T) {
	root := t.TempDir()
	db := Open(root)
	defer db.Close()

	s := DefaultSchema
	s.Asynchrone(1000, 200*time.Millisecond)

	if err := db.Create(&fC101A{}, s); err != nil {
		t.Fatal(err)
	}
	if err := db.Create(&fC101B{}, s); err != nil {
		t.Fatal(err)
	}

	a := &fC101A{N: 1}
	b := &fC101B{N: 2}
	if err := db.InsertOrUpdate(a); err != nil {
		t.Fatal(err)
	}
	if err := db.InsertOrUpdate(b); err != nil {
		t.Fatal(err)
	}

	// 15 times the timeout, no call on the handle in between
	time.Sleep(3 * time.Second)

	pa := filepath.Join(root, "sod.fC101A", a.UUID()+".json")
	pb := filepath.Join(root, "sod.fC101B", b.UUID()+".json")
	if _, err := os.Stat(pa); err != nil {
		t.Errorf("collection A: pending write not flushed after timeout: %s", err)
	}
	if _, err := os.Stat(pb); err != nil {
		t.Errorf("collection B: pending write not flushed after timeout: %s", err)
	}
}
