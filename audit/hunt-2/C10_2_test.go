package sod

import (
	"os"
	"path/filepath"
	"testing"
	"time"
)

type fC102 struct {
	Item
	N int
}

// A collection with asynchronous writes is reopened and the first call on the
// new handle is the write of an object whose UUID is chosen by the caller. The
// write is accepted and must be on disk once the timeout elapsed, without any
// further call.
func TestFindingC102(t *testing.T) {
	root := t.TempDir()

	s := DefaultSchema
	s.Asynchrone(1000, 200*time.Millisecond)

	db := Open(root)
	if err := db.Create(&fC102{}, s); err != nil {
		t.Fatal(err)
	}
	if err := db.Close(); err != nil {
		t.Fatal(err)
	}

	db = Open(root)
	defer db.Close()

	o := &fC102{N: 42}
	o.Initialize("11111111-2222-3333-4444-555555555555")
	if err := db.InsertOrUpdate(o); err != nil {
		t.Fatal(err)
	}

	// 15 times the timeout, no call on the handle in between
	time.Sleep(3 * time.Second)

	p := filepath.Join(root, "sod.fC102", o.UUID()+".json")
	if _, err := os.Stat(p); err != nil {
		t.Errorf("accepted write not flushed after timeout: %s", err)
	}
}
