package sod

import (
	"fmt"
	"testing"
)

type fC071Inner struct {
	A int
}

type fC071 struct {
	Item
	Name  string `sod:"unique"`
	Extra interface{}
}

// On a cached collection a batch of three objects is given to
// InsertOrUpdateMany; the second one holds a struct value in an interface{}
// field (same cause as C06_3). The batch must be stored entirely (count 3) or
// not at all (nothing changes).
func TestFindingC071(t *testing.T) {
	db := Open(t.TempDir())
	defer db.Close()

	s := DefaultSchema
	s.Cache = true
	if err := db.Create(&fC071{}, s); err != nil {
		t.Fatal(err)
	}

	a := &fC071{Name: "a"}
	b := &fC071{Name: "b", Extra: fC071Inner{1}}
	c := &fC071{Name: "c"}

	var n int
	err := func() (err error) {
		defer func() {
			if r := recover(); r != nil {
				err = fmt.Errorf("panic: %v", r)
			}
		}()
		n, err = db.InsertOrUpdateMany(a, b, c)
		return
	}()

	cnt, cerr := db.Count(&fC071{})
	if cerr != nil {
		t.Fatalf("Count: %s", cerr)
	}

	if err == nil {
		if n != 3 || cnt != 3 {
			t.Errorf("successful batch: n=%d count=%d, expected 3", n, cnt)
		}
		return
	}
	t.Logf("InsertOrUpdateMany failed: %s", err)

	if cnt != 0 {
		t.Errorf("failed batch is not all-or-nothing: %d object(s) indexed", cnt)
	}
	if ok, _ := db.Exist(a); ok {
		t.Errorf("failed batch is not all-or-nothing: first object is stored")
	}
	if l := db.Search(&fC071{}, "Name", "=", "a").Len(); l != 0 {
		t.Errorf("failed batch is not all-or-nothing: first object found by Search")
	}
}
