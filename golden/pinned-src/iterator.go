package sod

import (
	"errors"
	"reflect"
)

var (
	ErrEOI = errors.New("end of iterator")
)

type iterator struct {
	db      *DB
	t       reflect.Type
	i       int
	reverse bool
	uuids   []string
}

// newIterator creates a new iterator to iterate over Objects from their uuids
func newIterator(db *DB, of Object, uuids []string) *iterator {
	return &iterator{db: db, i: 0, uuids: uuids, t: typeof(of)}
}

// reversed iterates over the iterator in reverse order
func (it *iterator) reversed() *iterator {
	it.reverse = true
	it.i = len(it.uuids) - 1
	return it
}

// len returns the length of the iterator
func (it *iterator) len() int {
	return len(it.uuids)
}

func (it *iterator) object() Object {
	return reflect.New(it.t).Interface().(Object)
}

// next return the next Object of Iterator. It returns
// ErrEOI when no more objects are available.
func (it *iterator) next() (o Object, err error) {
	if it.i < len(it.uuids) && it.i >= 0 {
		o = it.object()
		o.Initialize(it.uuids[it.i])
		o, err = it.db.get(o)
		if it.reverse {
			it.i--
		} else {
			it.i++
		}
		return
	}
	err = ErrEOI
	return
}
