module github.com/0xrawsec/sod

go 1.18

require (
	github.com/0xrawsec/toast v1.2.3
	github.com/google/uuid v1.3.0
)
