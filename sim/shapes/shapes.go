// Package shapes holds the record types the harness stores in the database.
package shapes

import (
	"errors"
	"strings"
	"time"

	"github.com/0xrawsec/sod"
)

type Inner struct {
	N int32
	S string
	T time.Time
}

// AnyBox is a structure stored by value inside the interface{} field Any. Its
// JSON form is what the histories carry (a map with the same keys), so that the
// model needs no special case: scen.(*Seq).build turns that map into the value.
type AnyBox struct {
	// fields in the order encoding/json writes the keys of a map (sorted)
	Box string `json:"$box"`
	L   []int
	N   int32
	S   string
}

type Emb struct {
	E  uint16
	ES string
}

// Line is a struct stored by value inside slices, arrays and maps, with
// reference fields of its own.
type Line struct {
	Name  string
	Tags  []string
	Attrs map[string]int
	Qty   *int
	Sub   *Inner
}

// Rec has a field of every indexable kind, nested structs by value, behind a
// pointer and embedded, and container payloads for the aliasing checks.
type Rec struct {
	sod.Item
	Emb

	Lid int // logical id given by the harness (never indexed)

	I8  int8
	I16 int16
	I32 int32
	I64 int64
	I   int
	U8  uint8
	U16 uint16
	U32 uint32
	U64 uint64
	U   uint
	F32 float32
	F64 float64
	S   string
	Up  string
	Lo  string
	T   time.Time
	In  Inner
	P   *Inner

	Raw string // input of Transform
	Der string // derived by Transform from Raw

	Tags []string
	M    map[string]int
	PI   *int
	L    []*Inner
	MI   map[string][]*Inner
	Any  interface{}
	LS   []Line
	AR   [2]Line
	MS   map[string]Line
	AP   [2]*Inner // an array of pointers
}

// Derive is the transformation Rec.Transform applies.
func Derive(raw string) string { return "d:" + strings.TrimSpace(raw) }

// ErrBadRec is what Validate returns for an invalid record.
var ErrBadRec = errors.New("record is invalid")

// Hooks observed by the harness (set per run; nil = no observation).
var (
	OnTransform func(r *Rec)
	OnValidate  func(r *Rec) error
)

func (r *Rec) Transform() {
	r.Der = Derive(r.Raw)
	if OnTransform != nil {
		OnTransform(r)
	}
}

// Validate: validity depends on the transformed field.
func (r *Rec) Validate() error {
	if OnValidate != nil {
		if err := OnValidate(r); err != nil {
			return err
		}
	}
	if strings.HasPrefix(r.Der, "d:bad") {
		return ErrBadRec
	}
	return nil
}

// Small is a second collection using struct tags and the default schema.
type Small struct {
	sod.Item
	*Mid        // embedded pointer: D is promoted through two levels
	K    int    `sod:"unique"`
	V    string `sod:"index,lower"`
	W    string
	C    Code    `sod:"upper"` // a named string type
	PS   *string `sod:"lower"` // a pointer to a string
}

// Code is a named string type.
type Code string

// Deep and Mid: two levels of embedding, the outer one through a pointer.
type Deep struct{ D int }
type Mid struct {
	Deep
	MN string
}

// Stamp is a third, tiny collection for times beyond the range of UnixNano
// (the record type carries times as nanoseconds, which cannot express them).
type Stamp struct {
	sod.Item
	At time.Time `sod:"index"`
	N  int
}

// Other is a type that is never given a schema.
type Other struct {
	sod.Item
	X int
}

// Paths of Rec that can be searched / indexed, with their kind class.
var RecPaths = []string{
	"I8", "I16", "I32", "I64", "I", "U8", "U16", "U32", "U64", "U", "F32", "F64",
	"S", "Up", "Lo", "T", "In.N", "In.S", "In.T", "P.N", "P.S", "P.T", "Emb.E", "Emb.ES", "Raw", "Der", "Lid",
}

// GInner / GRec: the record type of the cross-version scenario (C18). It
// implements the Object interface itself, so the same type is accepted by the
// pinned release and by the current code.
type GInner struct {
	N int16  `sod:"index"`
	W string `sod:"upper"`
}

type GRec struct {
	uuid string
	Lid  int
	K    int     `sod:"unique"`
	N    int32   `sod:"index"`
	S    string  `sod:"index,lower"`
	F    float64 `sod:"index"`
	U    uint16  `sod:"index"`
	T    time.Time
	Tags []string
	M    map[string]int
	In   GInner
	P    *GInner
}

func (g *GRec) UUID() string        { return g.uuid }
func (g *GRec) Initialize(u string) { g.uuid = u }
func (g *GRec) Transform()          {}
func (g *GRec) Validate() error     { return nil }

// Types whose names exercise the snake-case rule of LowercaseNames (acronyms,
// digits after capitals, digits before lower case): used by the cross-version
// scenario, where the pinned release and the current code must agree on the
// directory name of each.
type nameBase struct {
	uuid string
	N    int `sod:"index"`
}

func (g *nameBase) UUID() string        { return g.uuid }
func (g *nameBase) Initialize(u string) { g.uuid = u }
func (g *nameBase) Transform()          {}
func (g *nameBase) Validate() error     { return nil }

type MD5Sum struct{ nameBase }
type HTTP2Conn struct{ nameBase }
type X509Cert struct{ nameBase }
type Int32x4 struct{ nameBase }
type ABCDef struct{ nameBase }
type SHA256 struct{ nameBase }
type A1b2C3 struct{ nameBase }
type IOReader9 struct{ nameBase }

// RawBytes turns the marker runes U+E080..U+E0FF of a harness string into the raw
// bytes 0x80..0xFF: histories are carried as JSON, which cannot hold strings that
// are not valid UTF-8, the objects handed to the database can.
func RawBytes(s string) string {
	marked := false
	for _, r := range s {
		if r >= 0xE080 && r <= 0xE0FF {
			marked = true
		}
	}
	if !marked {
		return s
	}
	b := make([]byte, 0, len(s))
	for _, r := range s {
		if r >= 0xE080 && r <= 0xE0FF {
			b = append(b, byte(r-0xE000))
		} else {
			b = append(b, string(r)...)
		}
	}
	return string(b)
}
