#!/bin/bash
# build.sh <scratch> [race]: rewrite /repo's working tree into <scratch>/sod and
# build the worker against it. Prints the fingerprint.
set -e
export GOFLAGS=-mod=mod GOPROXY=off GOSUMDB=off GOTOOLCHAIN=local
SCR="$1"; RACE="$2"
cd /verif/sim
mkdir -p "$SCR"
go run ./cmd/simbuildtest "${VERIF_REPO:-/repo}" "$SCR/sod" > "$SCR/simbuild.txt"
cat > "$SCR/build.mod" <<EOM
module verifsim

go 1.18

require (
	github.com/0xrawsec/sod v0.0.0
	github.com/anishathalye/porcupine v1.3.0
	github.com/google/uuid v1.3.0
)

replace github.com/0xrawsec/sod => $SCR/sod
EOM
cat > "$SCR/build.sum" <<EOM
github.com/0xrawsec/toast v1.2.3 h1:nTs5NyAdmSoDfxlYjMVMYb9wj3C/MFpnoIoQBPUsHXg=
github.com/0xrawsec/toast v1.2.3/go.mod h1:sRvfNYxqVoH1sZnE18s9Knm/lkbarTGNvaNVBf2/h1k=
github.com/anishathalye/porcupine v1.3.0 h1:yo51Niv8Tg0tAAn5XOG2UVvJXUregK4WFuLrBRoowP8=
github.com/anishathalye/porcupine v1.3.0/go.mod h1:WM0SsFjWNl2Y4BqHr/E/ll2yY1GY1jqn+W7Z/84Zoog=
github.com/google/uuid v1.3.0 h1:t6JiXgmwXMjEs8VusXIJk2BXHsn+wx8BZdTaoZ5fu7I=
github.com/google/uuid v1.3.0/go.mod h1:TIyPZe4MgqvfeYDBFedMoGGpEw/LqOeaOT+nhxU+yHo=
EOM
if [ "$RACE" = race ]; then
  go build -race -modfile="$SCR/build.mod" -o "$SCR/simworker-race" ./cmd/simworker
else
  go build -modfile="$SCR/build.mod" -o "$SCR/simworker" ./cmd/simworker
fi
