#!/bin/bash
# development helper: build.sh <dir> [race] - rewrite ${VERIF_REPO:-/repo}'s working tree and build the worker(s) into <dir>
set -e
export GOFLAGS=-mod=mod GOPROXY=off GOSUMDB=off GOTOOLCHAIN=local
cd /verif/sim && mkdir -p bin && go build -o bin/simcheck ./cmd/simcheck
S=$(VERIF_SCRATCH=/tmp ./bin/simcheck build $2 | tail -1)
rm -rf "$1"; mv "$S" "$1"
