// simworker runs simulated runs in one OS process (package globals of the
// code under test make one world per process at a time a hard rule) and
// prints one JSON line per run.
package main

import (
	"bufio"
	"encoding/json"
	"flag"
	"fmt"
	"os"
	"strings"
	"time"

	"verifsim/scen"
	"verifsim/simrt"
)

func main() {
	prop := flag.String("prop", "C01", "property id")
	sc := flag.String("scen", "seq", "scenario")
	seed := flag.Uint64("seed", 1, "base seed")
	from := flag.Int("from", 0, "first run index")
	n := flag.Int("n", 1, "number of runs")
	stride := flag.Int("stride", 1, "run index stride")
	replay := flag.String("replay", "", "params JSON file to replay")
	verbose := flag.Bool("v", false, "dump ops")
	secs := flag.Float64("secs", 0, "wall-clock budget (0 = none)")
	known := flag.String("known", "", "file with known-finding signature patterns, one per line")
	flag.Parse()
	if *known != "" {
		if b, err := os.ReadFile(*known); err == nil {
			for _, l := range strings.Split(string(b), "\n") {
				if l = strings.TrimSpace(l); l != "" {
					scen.Known = append(scen.Known, l)
				}
			}
		}
	}
	out := bufio.NewWriter(os.Stdout)
	defer out.Flush()
	enc := json.NewEncoder(out)
	if *replay != "" {
		b, err := os.ReadFile(*replay)
		if err != nil {
			fmt.Fprintln(os.Stderr, err)
			os.Exit(2)
		}
		var rf struct {
			Params scen.Params `json:"params"`
		}
		if err := json.Unmarshal(b, &rf); err != nil {
			fmt.Fprintln(os.Stderr, err)
			os.Exit(2)
		}
		if len(rf.Params.Batch) == 4 {
			// batch replay: the same worker process history up to the run
			b := rf.Params.Batch
			var res *scen.Result
			for i := uint64(0); i <= b[3]; i++ {
				p := scen.Params{Prop: rf.Params.Prop, Scenario: rf.Params.Scenario, Seed: simrt.Mix(b[0], b[1]+i*b[2])}
				if simrt.RaceBuild {
					p.Extra = map[string]int{"race": 1}
				}
				res = scen.Run(p)
				raceCheck(res)
			}
			res.Params.Batch = b
			enc.Encode(res)
			return
		}
		if simrt.RaceBuild {
			// warm the process up: in a fresh process the first uses of library
			// caches (encoding/json, reflect, sync.Pool) synchronise tasks with each
			// other incidentally and can hide a race that a long-running process shows
			for i := 0; i < 6; i++ {
				w := rf.Params
				w.Skip = nil
				w.Seed = simrt.Mix(12345, uint64(i))
				raceCheck(scen.Run(w))
			}
		}
		res := scen.Run(rf.Params)
		raceCheck(res)
		enc.Encode(res)
		return
	}
	start := time.Now()
	for i := 0; i < *n; i++ {
		if *secs > 0 && time.Since(start).Seconds() > *secs {
			break
		}
		idx := *from + i**stride
		p := scen.Params{Prop: *prop, Scenario: *sc, Seed: simrt.Mix(*seed, uint64(idx))}
		if *verbose {
			p.Extra = map[string]int{"dump": 1}
		}
		if simrt.RaceBuild {
			p.Extra = map[string]int{"race": 1}
		}
		res := scen.Run(p)
		raceCheck(res)
		if res.V != nil && res.V.Tag == "race" {
			res.Params.Batch = []uint64{*seed, uint64(*from), uint64(*stride), uint64(i)}
		}
		enc.Encode(res)
		out.Flush()
		if res.Stalls > 0 {
			// a goroutine of the code under test is (or was) stuck outside the simulator's
			// control: this process is not a clean place for further runs
			os.Exit(0)
		}
	}
}

var raceOff int64

// raceCheck attributes new ThreadSanitizer reports (frames in package sod on
// both sides) to the run that just finished.
func raceCheck(res *scen.Result) {
	if !simrt.RaceBuild {
		return
	}
	path := ""
	for _, f := range strings.Fields(os.Getenv("GORACE")) {
		if strings.HasPrefix(f, "log_path=") {
			path = strings.TrimPrefix(f, "log_path=") + "." + fmt.Sprint(os.Getpid())
		}
	}
	if path == "" {
		return
	}
	reps := scen.RaceReports(path, &raceOff)
	if res.Stats == nil {
		res.Stats = map[string]int{}
	}
	res.Stats["race-detector-on"]++
	if len(reps) == 0 || res.V != nil {
		return
	}
	first := reps[0]
	sig := first
	if i := strings.Index(first, "\n"); i >= 0 {
		sig = first[:i]
	}
	if len(first) > 6000 {
		first = first[:6000]
	}
	res.V = &scen.Violation{Tag: "race", Sig: "race:" + sig, Msg: "data race on the simulated schedule (happens-before of the program's own locks only):\n" + first}
	res.Owned = scen.OwnsTag(res.Params.Prop, "race")
}
