// simcheck is the driver of every check: it rewrites /repo's working tree into
// a scratch copy (simbuild), builds the worker against it, forks one worker
// process per core, aggregates what they covered into the evidence file,
// minimises and replays any violation in a fresh process and only then
// reports it.
//
//	simcheck check <PROP> <quick|thorough>
//	simcheck replay <file>
//
// exit 0: property held on everything explored; 1: VIOLATION line printed;
// 2: machinery trouble (build, determinism, watchdog) - never a VIOLATION.
package main

import (
	"bufio"
	"bytes"
	"encoding/json"
	"fmt"
	"os"
	"os/exec"
	"path/filepath"
	"sort"
	"strconv"
	"strings"
	"sync"
	"time"

	"verifsim/simbuild"
)

// verifDir is where this checkout of the machinery lives (VERIF_DIR lets a snapshot
// of /verif run from another place, e.g. under `vp run`).
var verifDir = env("VERIF_DIR", "/verif")

type violation struct {
	Tag  string `json:"tag"`
	Sig  string `json:"sig"`
	Msg  string `json:"msg"`
	Step int    `json:"step"`
	Op   string `json:"op"`
}

type params struct {
	Prop     string          `json:"prop"`
	Scenario string          `json:"scenario"`
	Seed     uint64          `json:"seed"`
	Skip     []int           `json:"skip,omitempty"`
	NoScrib  bool            `json:"no_scribble,omitempty"`
	Sched    json.RawMessage `json:"sched,omitempty"`
	Extra    map[string]int  `json:"extra,omitempty"`
	Batch    []uint64        `json:"batch,omitempty"`
}

type result struct {
	Params    params            `json:"params"`
	V         *violation        `json:"violation,omitempty"`
	Digest    uint64            `json:"digest"`
	Class     string            `json:"class"`
	Steps     int               `json:"steps"`
	SimMs     int64             `json:"sim_ms"`
	NOps      int               `json:"n_ops"`
	Stats     map[string]int    `json:"stats,omitempty"`
	Faults    map[string]int    `json:"faults,omitempty"`
	Sample    string            `json:"sample,omitempty"`
	Incon     string            `json:"inconclusive,omitempty"`
	Ops       []string          `json:"ops,omitempty"`
	Config    string            `json:"config,omitempty"`
	Decisions int               `json:"decisions,omitempty"`
	Owned     bool              `json:"owned,omitempty"`
	Cases     int               `json:"cases,omitempty"`
	Known     map[string]string `json:"known,omitempty"`
	Shape     string            `json:"shape,omitempty"`
}

// scenario plan per property: scenario name and share of the time budget
type part struct {
	Scen  string
	Share int
	Race  bool
}

var plans = map[string][]part{
	"C01": {{"seq", 100, false}},
	"C02": {{"seq", 100, false}},
	"C03": {{"seq", 100, false}},
	"C04": {{"seq", 100, false}},
	"C05": {{"crash", 100, false}},
	"C06": {{"seq", 50, false}, {"iofault", 50, false}},
	"C07": {{"seq", 100, false}},
	"C08": {{"conc", 60, false}, {"conc", 40, true}},
	"C09": {{"conc", 80, false}, {"iofault", 20, false}}, // a call must also return when the storage fails under it (a failed flush, a failed commit)
	"C10": {{"seq", 100, false}},
	"C11": {{"repair", 100, false}},
	"C12": {{"diff", 100, false}},
	"C13": {{"seq", 100, false}},
	"C14": {{"seq", 100, false}},
	"C15": {{"seq", 100, false}},
	"C16": {{"seq", 100, false}},
	"C17": {{"guard", 100, false}},
	"C18": {{"seq", 60, false}, {"golden", 40, false}},
	"C19": {{"mangle", 60, false}, {"seq", 40, false}},
	"C20": {{"seq", 100, false}},
}

var levels = map[string]string{"C05": "fault_enumeration", "C06": "fault_enumeration"}

// outDir is where evidence and replay files go (VERIF_OUT redirects them when
// the checks are pointed at a scratch copy of the repository).
func outDir() string { return env("VERIF_OUT", verifDir) }

func env(k, d string) string {
	if v := os.Getenv(k); v != "" {
		return v
	}
	return d
}

func goEnv() []string {
	e := os.Environ()
	e = append(e, "GOFLAGS=-mod=mod", "GOPROXY=off", "GOSUMDB=off", "GOTOOLCHAIN=local")
	return e
}

func die2(format string, a ...interface{}) {
	fmt.Fprintf(os.Stderr, "simcheck: "+format+"\n", a...)
	os.Exit(2)
}

const buildSum = `github.com/0xrawsec/toast v1.2.3 h1:nTs5NyAdmSoDfxlYjMVMYb9wj3C/MFpnoIoQBPUsHXg=
github.com/0xrawsec/toast v1.2.3/go.mod h1:sRvfNYxqVoH1sZnE18s9Knm/lkbarTGNvaNVBf2/h1k=
github.com/anishathalye/porcupine v1.3.0 h1:yo51Niv8Tg0tAAn5XOG2UVvJXUregK4WFuLrBRoowP8=
github.com/anishathalye/porcupine v1.3.0/go.mod h1:WM0SsFjWNl2Y4BqHr/E/ll2yY1GY1jqn+W7Z/84Zoog=
github.com/google/uuid v1.3.0 h1:t6JiXgmwXMjEs8VusXIJk2BXHsn+wx8BZdTaoZ5fu7I=
github.com/google/uuid v1.3.0/go.mod h1:TIyPZe4MgqvfeYDBFedMoGGpEw/LqOeaOT+nhxU+yHo=
`

type build struct {
	scratch string
	fp      string
	worker  string
	raceW   string
	info    *simbuild.Result
}

// prepare rewrites the working tree and builds the worker(s).
func prepare(needRace bool) *build {
	repo := env("VERIF_REPO", "/repo")
	base := env("VERIF_SCRATCH", os.TempDir())
	scr, err := os.MkdirTemp(base, "simcheck-")
	if err != nil {
		die2("scratch: %v", err)
	}
	b := &build{scratch: scr}
	cwd, _ := os.Getwd()
	res, err := simbuild.Build(repo, filepath.Join(scr, "sod"))
	os.Chdir(cwd)
	if err != nil {
		os.RemoveAll(scr)
		die2("simbuild: %v", err)
	}
	b.info = res
	b.fp = res.Fingerprint
	old := pinnedCopy()
	mod := fmt.Sprintf("module verifsim\n\ngo 1.18\n\nrequire (\n\tgithub.com/0xrawsec/sod v0.0.0\n\tgithub.com/0xrawsec/sodold v0.0.0\n\tgithub.com/anishathalye/porcupine v1.3.0\n\tgithub.com/google/uuid v1.3.0\n)\n\nreplace github.com/0xrawsec/sod => %s/sod\n\nreplace github.com/0xrawsec/sodold => %s\n", scr, old)
	os.WriteFile(filepath.Join(scr, "build.mod"), []byte(mod), 0644)
	os.WriteFile(filepath.Join(scr, "build.sum"), []byte(buildSum), 0644)
	var pats []string
	for _, k := range loadKnown() {
		pats = append(pats, k.Sig)
	}
	os.WriteFile(filepath.Join(scr, "known.txt"), []byte(strings.Join(pats, "\n")+"\n"), 0644)
	b.worker = filepath.Join(scr, "simworker")
	goBuild := func(out string, race bool) {
		args := []string{"build", "-modfile=" + filepath.Join(scr, "build.mod"), "-o", out}
		if race {
			args = append(args, "-race")
		}
		args = append(args, "./cmd/simworker")
		cmd := exec.Command("go", args...)
		cmd.Dir = filepath.Join(verifDir, "sim")
		cmd.Env = goEnv()
		outb, err := cmd.CombinedOutput()
		if err != nil {
			os.RemoveAll(scr)
			die2("building the worker against the rewritten copy failed:\n%s", outb)
		}
	}
	goBuild(b.worker, false)
	if needRace {
		b.raceW = filepath.Join(scr, "simworker-race")
		goBuild(b.raceW, true)
	}
	return b
}

func (b *build) cleanup() {
	if os.Getenv("VERIF_KEEP") == "" {
		os.RemoveAll(b.scratch)
	}
}

// pinnedCopy returns the rewritten copy of the pinned release (C18), building
// it once under sim/bin (it never changes: the sources are committed).
func pinnedCopy() string {
	dst := filepath.Join(verifDir, "sim", "bin", "sodold")
	if _, err := os.Stat(filepath.Join(dst, "go.mod")); err == nil {
		return dst
	}
	tmp, err := os.MkdirTemp(filepath.Join(verifDir, "sim", "bin"), "sodold-")
	if err != nil {
		os.MkdirAll(filepath.Join(verifDir, "sim", "bin"), 0755)
		if tmp, err = os.MkdirTemp(filepath.Join(verifDir, "sim", "bin"), "sodold-"); err != nil {
			die2("pinned copy: %v", err)
		}
	}
	cwd, _ := os.Getwd()
	_, err = simbuild.Build(filepath.Join(verifDir, "golden", "pinned-src"), tmp)
	os.Chdir(cwd)
	if err != nil {
		os.RemoveAll(tmp)
		die2("simbuild of the pinned release: %v", err)
	}
	gm, _ := os.ReadFile(filepath.Join(tmp, "go.mod"))
	os.WriteFile(filepath.Join(tmp, "go.mod"), []byte(strings.Replace(string(gm), "module github.com/0xrawsec/sod", "module github.com/0xrawsec/sodold", 1)), 0644)
	if err := os.Rename(tmp, dst); err != nil {
		os.RemoveAll(tmp) // somebody else built it meanwhile
	}
	return dst
}

// agg aggregates what the workers report.
type agg struct {
	mu        sync.Mutex
	runs      int
	cases     int
	distinct  map[string]bool
	nontriv   map[string]bool
	steps     int64
	simMs     int64
	stats     map[string]int
	faults    map[string]int
	incon     map[string]int
	foreign   map[string]int
	samples   []interface{}
	viol      []*result
	classes   map[string]int
	decisions int64
	knownHit  map[string]int
	knownEx   map[string]string
}

func newAgg() *agg {
	return &agg{distinct: map[string]bool{}, nontriv: map[string]bool{}, stats: map[string]int{}, faults: map[string]int{},
		incon: map[string]int{}, foreign: map[string]int{}, classes: map[string]int{}, knownHit: map[string]int{}, knownEx: map[string]string{}}
}

func firstLines(s string, n int) string {
	l := strings.Split(s, "\n")
	if len(l) > n {
		l = l[:n]
	}
	return strings.Join(l, " | ")
}

func (a *agg) add(r *result) {
	a.mu.Lock()
	defer a.mu.Unlock()
	a.runs++
	if r.Cases > 0 {
		a.cases += r.Cases
	} else {
		a.cases++
	}
	key := r.Class + "/" + strconv.FormatUint(r.Digest, 16)
	a.distinct[key] = true
	if r.NOps > 0 && r.Steps > 10 {
		a.nontriv[r.Shape] = true
	}
	a.steps += int64(r.Steps)
	a.simMs += r.SimMs
	a.decisions += int64(r.Decisions)
	a.classes[r.Class]++
	for k, v := range r.Stats {
		a.stats[k] += v
	}
	for k, v := range r.Faults {
		a.faults[k] += v
	}
	if r.Incon != "" {
		a.incon[r.Incon]++
	}
	for k, ex := range r.Known {
		a.knownHit[k]++
		if _, ok := a.knownEx[k]; !ok {
			a.knownEx[k] = fmt.Sprintf("seed %d: %s", r.Params.Seed, ex)
		}
	}
	if len(a.samples) < 3 && r.Sample != "" {
		a.samples = append(a.samples, map[string]interface{}{"seed": r.Params.Seed, "scenario": r.Params.Scenario, "config": r.Config, "n_ops": r.NOps, "first_op": r.Sample})
	}
	if r.V != nil && r.V.Sig == "panic:unknown" {
		// a panic with no frame of package sod on its stack is a defect of the harness, not
		// of the code under test: reported as machinery trouble (exit 2), never as a violation
		r.Incon = "worker-died: harness panic: " + firstLines(r.V.Msg, 12)
		a.incon[r.Incon]++
		r.V = nil
	}
	if r.V != nil {
		if r.Owned {
			a.viol = append(a.viol, r)
		} else {
			a.foreign[r.V.Sig]++
		}
	}
}

// runWorkers runs one scenario part on all cores for the given wall budget.
func runWorkers(b *build, prop string, p part, seed uint64, secs float64, a *agg, stopOnViol bool) {
	nw := 16
	if s := os.Getenv("VERIF_WORKERS"); s != "" {
		if n, err := strconv.Atoi(s); err == nil && n > 0 {
			nw = n
		}
	}
	bin := b.worker
	if p.Race {
		bin = b.raceW
	}
	var wg sync.WaitGroup
	stop := make(chan struct{})
	var once sync.Once
	for w := 0; w < nw; w++ {
		wg.Add(1)
		go func(w int) {
			defer wg.Done()
			args := []string{"-known", filepath.Join(b.scratch, "known.txt"), "-prop", prop, "-scen", p.Scen, "-seed", strconv.FormatUint(seed, 10), "-from", strconv.Itoa(w),
				"-stride", strconv.Itoa(nw), "-n", "100000000", "-secs", fmt.Sprintf("%.1f", secs)}
			cmd := exec.Command(bin, args...)
			cmd.Env = append(os.Environ(), "GORACE=halt_on_error=0 exitcode=0 suppress_equal_stacks=0 suppress_equal_addresses=0 log_path="+filepath.Join(b.scratch, fmt.Sprintf("race-%d", w)))
			out, _ := cmd.StdoutPipe()
			var errb bytes.Buffer
			cmd.Stderr = &errb
			if err := cmd.Start(); err != nil {
				die2("worker start: %v", err)
			}
			overrun := false
			go func() {
				select {
				case <-stop:
				case <-time.After(time.Duration(secs+180) * time.Second):
					overrun = true // stuck inside a run (e.g. a busy loop that never reaches a scheduling point)
				}
				cmd.Process.Kill()
			}()
			sc := bufio.NewScanner(out)
			sc.Buffer(make([]byte, 1<<20), 1<<28)
			for sc.Scan() {
				var r result
				if err := json.Unmarshal(sc.Bytes(), &r); err != nil {
					continue
				}
				a.add(&r)
				if r.V != nil && r.Owned && stopOnViol {
					once.Do(func() { close(stop) })
				}
			}
			err := cmd.Wait()
			if overrun {
				a.mu.Lock()
				a.incon["worker-died: a run did not end within the budget + 180 s (stuck outside the simulator's control)"]++
				a.mu.Unlock()
			}
			select {
			case <-stop:
			default:
				if err != nil && !overrun {
					a.mu.Lock()
					a.incon["worker-died: "+firstLine(errb.String())]++
					a.mu.Unlock()
				}
			}
		}(w)
	}
	wg.Wait()
	once.Do(func() { close(stop) })
}

func firstLine(s string) string {
	s = strings.TrimSpace(s)
	if i := strings.Index(s, "\n"); i >= 0 {
		s = s[:i]
	}
	if len(s) > 200 {
		s = s[:200]
	}
	return s
}

// runOne executes one run in a fresh process.
func runOne(b *build, p params, race bool) (*result, error) {
	f := filepath.Join(b.scratch, fmt.Sprintf("replay-%d.json", time.Now().UnixNano()))
	body, _ := json.Marshal(map[string]interface{}{"params": p})
	os.WriteFile(f, body, 0644)
	defer os.Remove(f)
	bin := b.worker
	if race {
		bin = b.raceW
	}
	cmd := exec.Command(bin, "-known", filepath.Join(b.scratch, "known.txt"), "-replay", f)
	cmd.Env = append(os.Environ(), "GORACE=halt_on_error=0 exitcode=0 suppress_equal_stacks=0 suppress_equal_addresses=0 log_path="+filepath.Join(b.scratch, "race-replay"))
	var out, errb bytes.Buffer
	cmd.Stdout = &out
	cmd.Stderr = &errb
	done := make(chan error, 1)
	if err := cmd.Start(); err != nil {
		return nil, err
	}
	go func() { done <- cmd.Wait() }()
	select {
	case err := <-done:
		if err != nil {
			return nil, fmt.Errorf("worker failed: %v: %s", err, firstLine(errb.String()))
		}
	case <-time.After(300 * time.Second):
		cmd.Process.Kill()
		return nil, fmt.Errorf("worker timed out")
	}
	var r result
	if err := json.Unmarshal(bytes.TrimSpace(out.Bytes()), &r); err != nil {
		return nil, fmt.Errorf("bad worker output: %v", err)
	}
	return &r, nil
}

// minimise removes operations (ddmin) while the same signature persists.
func minimise(b *build, r *result, race bool, budget time.Duration) *result {
	deadline := time.Now().Add(budget)
	best := r
	total := r.NOps + len(r.Params.Skip)
	if total == 0 {
		return best
	}
	skipped := map[int]bool{}
	for _, i := range r.Params.Skip {
		skipped[i] = true
	}
	alive := func() []int {
		var l []int
		for i := 0; i < total; i++ {
			if !skipped[i] {
				l = append(l, i)
			}
		}
		return l
	}
	try := func(extra []int) bool {
		p := best.Params
		var sk []int
		for i := range skipped {
			sk = append(sk, i)
		}
		sk = append(sk, extra...)
		sort.Ints(sk)
		p.Skip = sk
		nr, err := runOne(b, p, race)
		if err != nil || nr.V == nil || !sameViolation(nr.V, r.V) {
			return false
		}
		best = nr
		for _, i := range extra {
			skipped[i] = true
		}
		return true
	}
	// first: drop everything after the failing step
	if r.V.Step < total {
		var tail []int
		for _, i := range alive() {
			if i > r.V.Step {
				tail = append(tail, i)
			}
		}
		if len(tail) > 0 {
			try(tail)
		}
	}
	n := 2
	for time.Now().Before(deadline) {
		l := alive()
		if len(l) <= 1 {
			break
		}
		if n > len(l) {
			n = len(l)
		}
		chunk := (len(l) + n - 1) / n
		reduced := false
		for i := 0; i < len(l) && time.Now().Before(deadline); i += chunk {
			j := i + chunk
			if j > len(l) {
				j = len(l)
			}
			if try(l[i:j]) {
				reduced = true
				break
			}
		}
		if reduced {
			if n > 2 {
				n--
			}
			continue
		}
		if n >= len(l) {
			break
		}
		n *= 2
	}
	return best
}

// sameViolation: same signature; for data races the same oracle suffices,
// because ThreadSanitizer reports each pair of stacks once per process, so
// which of several racing pairs is named first differs between a batch
// process and a fresh one.
func sameViolation(a, b *violation) bool {
	if a.Tag == "race" && b.Tag == "race" {
		return true
	}
	return a.Sig == b.Sig
}

type knownFinding struct {
	Prop string
	Sig  string
	What string
}

func loadKnown() []knownFinding {
	var out []knownFinding
	b, err := os.ReadFile(filepath.Join(verifDir, "known_findings.txt"))
	if err != nil {
		return nil
	}
	for _, line := range strings.Split(string(b), "\n") {
		line = strings.TrimSpace(line)
		if !strings.HasPrefix(line, "finding:") {
			continue
		}
		k := knownFinding{}
		rest := strings.TrimSpace(strings.TrimPrefix(line, "finding:"))
		if i := strings.Index(rest, " what="); i >= 0 {
			k.What = rest[i+6:]
			rest = rest[:i]
		}
		for _, f := range strings.Fields(rest) {
			if strings.HasPrefix(f, "property=") {
				k.Prop = strings.TrimPrefix(f, "property=")
			}
			if strings.HasPrefix(f, "sig=") {
				k.Sig = strings.TrimPrefix(f, "sig=")
			}
		}
		if k.Sig != "" {
			out = append(out, k)
		}
	}
	return out
}

func isKnown(known []knownFinding, sig string) *knownFinding {
	for i := range known {
		k := known[i].Sig
		if k == sig || (strings.HasSuffix(k, "*") && strings.HasPrefix(sig, strings.TrimSuffix(k, "*"))) {
			return &known[i]
		}
	}
	return nil
}

func main() {
	if len(os.Args) < 2 {
		die2("usage: simcheck check <PROP> <quick|thorough> | replay <file>")
	}
	switch os.Args[1] {
	case "check":
		if len(os.Args) < 4 {
			die2("usage: simcheck check <PROP> <quick|thorough>")
		}
		os.Exit(check(os.Args[2], os.Args[3]))
	case "replay":
		if len(os.Args) < 3 {
			die2("usage: simcheck replay <file>")
		}
		os.Exit(replay(os.Args[2]))
	case "warm":
		b := prepare(len(os.Args) > 2 && os.Args[2] == "race")
		b.cleanup()
	case "build":
		// development helper: keep the scratch build and print where it is
		os.Setenv("VERIF_KEEP", "1")
		b := prepare(len(os.Args) > 2 && os.Args[2] == "race")
		fmt.Println(b.scratch)
	default:
		die2("unknown command %s", os.Args[1])
	}
}

func replay(file string) int {
	body, err := os.ReadFile(file)
	if err != nil {
		die2("%v", err)
	}
	var rf struct {
		Property string     `json:"property"`
		Params   params     `json:"params"`
		V        *violation `json:"violation"`
		Race     bool       `json:"race"`
	}
	if err := json.Unmarshal(body, &rf); err != nil {
		die2("bad replay file: %v", err)
	}
	b := prepare(rf.Race)
	defer b.cleanup()
	r, err := runOne(b, rf.Params, rf.Race)
	if err != nil {
		b.cleanup()
		die2("%v", err)
	}
	// the simulated schedule of a replay is exact, but whether ThreadSanitizer reports a
	// race on it also depends on incidental happens-before edges inside the Go runtime
	// (sync.Pool in fmt / encoding/json, allocator) that vary with the real scheduling: a
	// report is sound whenever it appears, its absence in one execution is not a proof.
	// A race replay is therefore executed up to 8 times.
	for attempt := 1; rf.Race && r.V == nil && attempt < 8; attempt++ {
		if r, err = runOne(b, rf.Params, rf.Race); err != nil {
			b.cleanup()
			die2("%v", err)
		}
	}
	if r.V == nil {
		var kpats []string
		for k := range r.Known {
			kpats = append(kpats, k)
		}
		sort.Strings(kpats)
		for _, k := range kpats {
			fmt.Printf("KNOWN-FINDING: property=%s pattern %s: %s\n", rf.Property, k, strings.ReplaceAll(r.Known[k], "\n", " "))
		}
		if len(kpats) > 0 {
			fmt.Printf("replay of %s: only listed findings on the current tree\n", file)
			return 0
		}
		fmt.Printf("replay of %s: no violation on the current tree\n", file)
		return 0
	}
	fmt.Printf("replay of %s: %s\n%s\n", file, r.V.Sig, r.V.Msg)
	for _, o := range r.Ops {
		fmt.Println("  ", o)
	}
	if rf.V != nil && rf.V.Sig != r.V.Sig {
		fmt.Printf("note: the recorded violation was %s\n", rf.V.Sig)
	}
	fmt.Printf("VIOLATION property=%s replay=%s\n", rf.Property, file)
	return 1
}

func check(prop, tier string) int {
	plan, ok := plans[prop]
	if !ok {
		die2("unknown property %s", prop)
	}
	start := time.Now()
	seed := uint64(20260925)
	if s := os.Getenv("VERIF_SEED"); s != "" {
		if n, err := strconv.ParseUint(s, 10, 64); err == nil {
			seed = n
		}
	}
	secs := 30.0
	if tier == "thorough" {
		secs = 600
	}
	if s := os.Getenv("VERIF_SECS"); s != "" {
		if n, err := strconv.ParseFloat(s, 64); err == nil {
			secs = n
		}
	}
	needRace := false
	for _, p := range plan {
		if p.Race {
			needRace = true
		}
	}
	b := prepare(needRace)
	defer b.cleanup()
	buildS := time.Since(start).Seconds()
	a := newAgg()
	known := loadKnown()
	exit := 0
	var reported []map[string]interface{}
	seenSig := map[string]bool{}
	for _, p := range plan {
		budget := secs * float64(p.Share) / 100
		partStart := time.Now()
		for attempt := 0; attempt < 4; attempt++ {
			left := budget - time.Since(partStart).Seconds()
			if left < 1 {
				break
			}
			a.viol = nil
			runWorkers(b, prop, p, seed+uint64(attempt)*1000003, left, a, true)
			if len(a.viol) == 0 {
				break
			}
			// pick the shortest violating run, minimise, confirm in a fresh process
			sort.Slice(a.viol, func(i, j int) bool { return a.viol[i].NOps < a.viol[j].NOps })
			v := a.viol[0]
			if seenSig[v.V.Sig] {
				continue
			}
			seenSig[v.V.Sig] = true
			minb := 45 * time.Second
			if tier == "quick" {
				minb = 20 * time.Second
			}
			batch := v.Params.Batch
			v.Params.Batch = nil
			m := minimise(b, v, p.Race, minb)
			conf, err := runOne(b, m.Params, p.Race)
			if (err != nil || conf.V == nil || !sameViolation(conf.V, v.V)) && len(batch) == 4 {
				// a race report can depend on what the worker process ran before:
				// replay the worker's own sequence up to this run
				bp := v.Params
				bp.Batch = batch
				bp.Skip = nil
				conf, err = runOne(b, bp, p.Race)
			}
			// whether ThreadSanitizer reports a race on the (exactly replayed) schedule also depends on
			// incidental happens-before edges inside the Go runtime: a race confirmation is retried
			for attempt := 0; p.Race && attempt < 8 && (err != nil || conf.V == nil || !sameViolation(conf.V, v.V)); attempt++ {
				bp := v.Params
				if attempt%2 == 1 && len(batch) == 4 {
					bp.Batch = batch
					bp.Skip = nil
				}
				conf, err = runOne(b, bp, p.Race)
			}
			if err != nil || conf.V == nil || !sameViolation(conf.V, v.V) {
				b.cleanup()
				die2("determinism failure of the machinery: violation %s of seed %d did not reproduce in a fresh process (%v)", v.V.Sig, v.Params.Seed, err)
			}
			os.MkdirAll(filepath.Join(outDir(), "replays"), 0755)
			rp := filepath.Join(outDir(), "replays", fmt.Sprintf("%s-%s-%d.json", prop, p.Scen, conf.Params.Seed))
			body, _ := json.MarshalIndent(map[string]interface{}{
				"property": prop, "params": conf.Params, "violation": conf.V, "race": p.Race,
				"code_fingerprint": b.fp, "config": conf.Config, "ops": conf.Ops, "event_digest": conf.Digest,
			}, "", " ")
			os.WriteFile(rp, body, 0644)
			if k := isKnown(known, conf.V.Sig); k != nil {
				fmt.Printf("KNOWN-FINDING: property=%s %s (%s) replay=%s\n", prop, k.What, conf.V.Sig, rp)
				reported = append(reported, map[string]interface{}{"sig": conf.V.Sig, "known": true, "replay": rp})
				continue
			}
			fmt.Printf("violation %s\n%s\nminimised history (%d ops) under %s:\n", conf.V.Sig, conf.V.Msg, conf.NOps, conf.Config)
			for _, o := range conf.Ops {
				if len(o) > 400 {
					o = o[:400] + "..."
				}
				fmt.Println("  ", o)
			}
			fmt.Printf("VIOLATION property=%s replay=%s\n", prop, rp)
			reported = append(reported, map[string]interface{}{"sig": conf.V.Sig, "known": false, "replay": rp})
			exit = 1
			break
		}
		if exit == 1 {
			break
		}
	}
	for k := range a.incon {
		if strings.HasPrefix(k, "worker-died") && exit == 0 {
			b.cleanup()
			die2("a worker process died (not reported as a violation: the cause is unknown): %s", k)
		}
	}
	if a.runs == 0 || sumMap(a.incon) >= a.runs {
		b.cleanup()
		die2("every run was inconclusive: %v", a.incon)
	}
	var kpats []string
	for k := range a.knownHit {
		kpats = append(kpats, k)
	}
	sort.Strings(kpats)
	for _, k := range kpats {
		what := k
		if kf := isKnown(known, k); kf != nil {
			what = kf.What
		}
		ex := a.knownEx[k]
		if len(ex) > 600 {
			ex = ex[:600] + "..."
		}
		fmt.Printf("KNOWN-FINDING: property=%s %s [pattern %s, met in %d runs; e.g. %s]\n", prop, what, k, a.knownHit[k], strings.ReplaceAll(ex, "\n", " "))
		reported = append(reported, map[string]interface{}{"sig": k, "known": true, "runs": a.knownHit[k]})
	}
	writeEvidence(prop, tier, seed, a, b, time.Since(start).Seconds(), buildS, reported, exit)
	return exit
}

func topStats(m map[string]int, prefix string) map[string]int {
	out := map[string]int{}
	for k, v := range m {
		if strings.HasPrefix(k, prefix) {
			out[strings.TrimPrefix(k, prefix)] = v
		}
	}
	return out
}

func writeEvidence(prop, tier string, seed uint64, a *agg, b *build, wall, buildS float64, reported []map[string]interface{}, exit int) {
	level := "exploration"
	if l, ok := levels[prop]; ok {
		level = l
	}
	viol := 0
	for _, r := range reported {
		if r["known"] == false {
			viol++
		}
	}
	runWall := wall - buildS
	if runWall < 0.001 {
		runWall = 0.001
	}
	probes := topStats(a.stats, "probe:")
	var unreached []string
	for _, want := range expectedProbes[prop] {
		if probes[want] == 0 {
			unreached = append(unreached, want)
		}
	}
	sort.Strings(unreached)
	samples := a.samples
	if len(samples) == 0 {
		samples = []interface{}{"no run completed"}
	}
	distinct := len(a.nontriv)
	cov := map[string]interface{}{
		"evaluations":         a.cases,
		"simulated_runs":      a.runs,
		"distinct_nontrivial": distinct,
		"rule": "one evaluation = one simulated run (or, for the fault-enumerating scenarios, one materialised crash/fault state); a run is drawn from " +
			"VERIF_SEED (configuration, value pools, operation history, schedule, fault placement); distinct_nontrivial counts distinct run SHAPES among " +
			"non-trivial runs (at least one operation and more than 10 scheduling points), a shape being (configuration class incl. scenario class such as " +
			"fault set / schedule generator / struct variant, multiset of operation kinds, reach probes and fault kinds capped at 3, bucketed number of " +
			"scheduler decisions); distinct_event_logs counts distinct (configuration class, event-log digest) pairs",
		"distinct_event_logs":   len(a.distinct),
		"samples":               samples,
		"runs_per_hour":         int(float64(a.runs) / runWall * 3600),
		"simulated_time_s":      float64(a.simMs) / 1000,
		"scheduling_points":     a.steps,
		"scheduler_decisions":   a.decisions,
		"configuration_classes": len(a.classes),
		"faults_fired":          a.faults,
		"reach_probes":          probes,
		"unreached_probes":      unreached,
		"operations":            topStats(a.stats, "op:"),
		"oracle_checks":         oracleStats(a.stats),
		"inconclusive":          a.incon,
		"foreign_divergences":   a.foreign,
		"reported":              reported,
		"code_fingerprint":      b.fp,
		"rewrite":               map[string]int{"go_statements": b.info.GoStmts, "map_ranges": b.info.MapRanges, "reflect_map_iterations": b.info.ReflectMaps, "imports": b.info.Imports},
		"components_real":       []string{"package sod (rewritten copy of /repo's working tree)", "encoding/json", "compress/gzip", "reflect", "regexp", "context", "github.com/google/uuid"},
		"components_simulated":  []string{"os/ioutil file system (simfs)", "time (discrete-event clock)", "sync (scheduler-owned locks)", "goroutine scheduling", "uuid randomness", "map iteration order"},
		"build_s":               buildS,
		"exhaustive":            false,
	}
	ev := map[string]interface{}{
		"property_id": prop, "tier": tier, "seed": seed, "level": level, "coverage": cov,
		"assumptions": []string{
			"sampling: a clean batch is evidence over the runs counted here, not a proof",
			"preemption happens at shim calls (locks, file-system calls, sleeps, spawns)",
			"process-crash model: completed system calls persist in order",
			"the reference model and oracles in /verif/sim/model and /verif/sim/scen state the property correctly",
		},
		"wall_s": wall, "violations": viol,
	}
	os.MkdirAll(filepath.Join(outDir(), "evidence"), 0755)
	body, _ := json.MarshalIndent(ev, "", " ")
	os.WriteFile(filepath.Join(outDir(), "evidence", prop+".json"), body, 0644)
	fmt.Printf("%s %s: %d runs, %d evaluations, %d distinct, %.0f s wall (build %.0f s), %d inconclusive, %d foreign divergences, exit %d\n",
		prop, tier, a.runs, a.cases, distinct, wall, buildS, sumMap(a.incon), sumMap(a.foreign), exit)
	if len(unreached) > 0 {
		fmt.Printf("warning: reach probes at zero: %v\n", unreached)
	}
}

func sumMap(m map[string]int) int {
	n := 0
	for _, v := range m {
		n += v
	}
	return n
}

func oracleStats(m map[string]int) map[string]int {
	out := map[string]int{}
	for k, v := range m {
		if strings.HasSuffix(k, "-checked") || strings.HasPrefix(k, "search:") || k == "sweep" || strings.HasPrefix(k, "check:") {
			out[k] = v
		}
	}
	return out
}

var expectedProbes = map[string][]string{
	"C01": {"absent-lookup-twice"},
	"C04": {"reload-index-value-beyond-2^53"},
	"C07": {"intra-batch-conflict", "batch-multi"},
	"C20": {"held-across-writes"},
}
