package main

import (
	"fmt"
	"os"
	"verifsim/simbuild"
)

func main() {
	r, err := simbuild.Build(os.Args[1], os.Args[2])
	if err != nil {
		fmt.Println("ERR", err)
		os.Exit(2)
	}
	fmt.Printf("%+v\n", r)
}
