#!/bin/bash
# builds the driver from files on disk only (offline)
set -e
export GOFLAGS=-mod=mod GOPROXY=off GOSUMDB=off GOTOOLCHAIN=local
cd /verif/sim
mkdir -p bin
go build -o bin/simcheck ./cmd/simcheck
# warm the build cache (worker + race runtime) so that checks build fast
./bin/simcheck warm race >/dev/null 2>&1 || ./bin/simcheck warm
echo setup ok
