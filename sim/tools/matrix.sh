#!/bin/bash
# runs every mutant of /verif/mutants against the check named by its file name prefix (cNN-...)
# usage: matrix.sh [secs] [pattern]
SECS=${1:-15}; PAT=${2:-}
cd /verif/sim && mkdir -p bin && go build -o bin/simcheck ./cmd/simcheck || exit 2
for m in /verif/mutants/*${PAT}*.patch; do
  n=$(basename $m .patch); prop=$(echo $n | cut -c1-3 | tr c C)
  /verif/sim/tools/mutant.sh $m $SECS $prop 2>&1 | sed "s/^/$n /" | grep "=="
done
