#!/usr/bin/env python3
import json,sys,collections
c=collections.Counter()
for l in open(sys.argv[1]):
    r=json.loads(l)
    for k,v in (r.get('stats') or {}).items(): c[k]+=v
pat=sys.argv[2] if len(sys.argv)>2 else ''
for k in sorted(c):
    if pat in k: print(f'{c[k]:8d} {k}')
