#!/bin/bash
# audit.sh: runs every demonstration test of /verif/audit/hunt-*/ (independent audits of the tree by sub-agents that saw
# only the property texts) against /repo HEAD in a scratch worktree; prints PASS (no longer fails) / FAIL per test
export GOFLAGS=-mod=mod GOPROXY=off GOSUMDB=off GOTOOLCHAIN=local
WT=$(mktemp -d /tmp/audit-XXXX); rmdir $WT
git -C /repo worktree add -q $WT HEAD || exit 2
for h in /verif/audit/hunt-*; do
  for f in $h/*_test.go; do
    n=$(basename $f _test.go); t=$(grep -o "func TestFinding[A-Za-z0-9_]*" $f | head -1 | sed 's/func //')
    cp $f $WT/zz_$(basename $f)
    flags=""; grep -q "C08" <<<"$n" && flags="-race"
    out=$(cd $WT && timeout 300 go test $flags -vet=off -count=1 -run "^$t\$" . 2>&1 | grep -E "^(ok|FAIL|--- FAIL|panic)" | head -2 | tr '\n' ' ')
    rm $WT/zz_$(basename $f)
    case "$out" in ok*) r=PASS;; *) r=FAIL;; esac
    echo "$(basename $h)/$n $t $r"
  done
done
git -C /repo worktree remove --force $WT
