#!/bin/bash
# try.sh <seeded name> [prop] [secs]: quick re-check of one stored seeded change (no suite / demo confirmation)
export GOFLAGS=-mod=mod GOPROXY=off GOSUMDB=off GOTOOLCHAIN=local
N=$1; P=${2:-${N:0:3}}; SECS=${3:-30}
WT=$(mktemp -d /tmp/trywt-XXXX); rmdir $WT
git -C /repo worktree add -q $WT HEAD || exit 2
if ! git -C $WT apply /verif/seeded/$N/patch.diff 2>/dev/null; then (cd $WT && patch -p1 --fuzz=3 -s < /verif/seeded/$N/patch.diff) || { echo "$N: PATCH DOES NOT APPLY"; git -C /repo worktree remove --force $WT; exit 2; }; fi
out=$(cd /verif && VERIF_REPO=$WT VERIF_OUT=/tmp/tryout-$N VERIF_SECS=$SECS ./run.sh $P quick 2>&1); code=$?
echo "$N by $P: exit=$code $(echo "$out" | grep -m1 '^violation' | cut -c1-180)"
[ $code = 2 ] && echo "$out" | tail -3
git -C /repo worktree remove --force $WT; rm -rf /tmp/tryout-$N
