#!/bin/bash
# runs the repository's own test suite at every fix: commit of /repo (each must pass with the suite unedited)
export GOFLAGS=-mod=mod GOPROXY=off GOSUMDB=off GOTOOLCHAIN=local
OUT=${1:-/tmp/percommit.log}; : > $OUT
for c in $(git -C /repo log --reverse --format=%h e481c06..HEAD); do
  WT=$(mktemp -d /tmp/pc-XXXX); rmdir $WT
  git -C /repo worktree add -q $WT $c || { echo "$c worktree failed" >> $OUT; continue; }
  res=$(cd $WT && go test -vet=off -count=1 -timeout 25m . 2>&1 | grep -E "^(ok|FAIL|--- FAIL)" | tr '\n' ' ')
  case "$res" in
    *"--- FAIL: TestIndexAllTypes"*) # the known flaky test of the baseline: once more
      res="$res | retry: $(cd $WT && go test -vet=off -count=1 -timeout 25m . 2>&1 | grep -E "^(ok|FAIL|--- FAIL)" | tr '\n' ' ')";;
  esac
  echo "$c $(git -C /repo log -1 --format=%s $c | cut -c1-70) :: $res" >> $OUT
  git -C /repo worktree remove --force $WT
done
echo DONE >> $OUT
