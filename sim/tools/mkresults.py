#!/usr/bin/env python3
# regenerates /verif/seeded/RESULTS.md from seeded/*/meta.json, seeded/summaries.json and seeded/notes.json
import json,os,glob
root='/verif/seeded'
summ=json.load(open(root+'/summaries.json'))
notes=json.load(open(root+'/notes.json')) if os.path.exists(root+'/notes.json') else {}
waves={'':'Wave 1','b':'Wave 2 (each agent was told the wave-1 change and asked for another site and mechanism)','c':'Wave 3 (told both earlier changes; asked for the least obvious site)','d':'Wave 4 (told all three earlier changes; asked for sites where two features interact)','e':'Wave 5 (told all four; pointed at the code added by the fix commits)','f':'Wave 6 (told the five earlier ideas as one-liners, asked for a different part of the code)'}
out=["# Independently seeded changes — which check catches which","",
"Each change was written by a fresh sub-agent that saw only the property text and a scratch worktree (nothing from /verif).",
"`sim/tools/seeded.sh <PROP> <dir> <name>` applies the stored patch to a fresh scratch worktree of /repo HEAD, confirms that it builds, that the",
"existing suite still passes, that the demonstration fails with the change and passes without it, then runs the property's quick check",
"(30 s search budget) against the worktree (`VERIF_REPO`). `sim/tools/seeded_all.sh` does that for every stored change. Results of the last",
"run (recorded in `<name>/meta.json`; a patch that no longer applied cleanly after later `fix:` commits was rebased with `patch --fuzz` and stored):",""]
tot=caught=0
neutralised=[]
for suf,title in waves.items():
    names=sorted(n for n in os.listdir(root) if os.path.isdir(root+'/'+n) and n[3:]==suf)
    if not names: continue
    out+=["## "+title,"","| id | what the change is / needs | check: exit, reported signature | confirmed (suite / demo with / without) |","|---|---|---|---|"]
    for n in names:
        try: m=json.load(open(f'{root}/{n}/meta.json'))
        except Exception: continue
        cr='; '.join(f"{c['check']}: exit {c['exit']} `{c['reported'].replace('violation ','')}`" if c['reported'] else f"{c['check']}: exit {c['exit']}" for c in m['checks_run'])
        c=m['confirmed']
        neutral = (not any(x['exit']==1 for x in m['checks_run'])) and c['demo_with_change'].startswith('ok')
        if neutral:
            neutralised.append(n)
            cr += ' — **neutralised**: the demonstration passes with the change applied (a later `fix:` commit took the changed code out of the path); not counted'
        else:
            tot+=1
            if any(x['exit']==1 for x in m['checks_run']): caught+=1
        out.append(f"| {n} | {summ.get(n,'see README.md')} | {cr} | {c['existing_suite_with_change'][:40]} / {c['demo_with_change'][:30]} / {c['demo_on_unchanged_sources'][:30]} |")
    out.append("")
out.insert(8,f"**{caught} of {tot} changes that still break their property on the final tree are reported by at least one registered check**" + (f" ({len(neutralised)} more, {', '.join(neutralised)}, were neutralised by later fixes).\n" if neutralised else ".\n"))
if notes:
    out+=["## What was missed at first, and what was changed in the machinery",""]
    for k in sorted(notes): out.append(f"* **{k}** — {notes[k]}")
open(root+'/RESULTS.md','w').write('\n'.join(out)+'\n')
print(caught,'/',tot)
