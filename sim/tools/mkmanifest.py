#!/usr/bin/env python3
# regenerates /verif/MANIFEST.json from the table below
import json
props=[json.loads(l) for l in open('/verif/properties.jsonl')]
title={p['id']:p['title'] for p in props}
# id -> (level, technique, text, note, design_ref)
C={}
def add(i,level,tech,text,note,ref): C[i]=(level,tech,text,note,ref)
SEQ="deterministic simulation: seeded history machine (sim file system, sim clock, real flusher task under a seeded scheduler) checked step by step against an executable reference model"
add('C01','exploration',SEQ,"Seeded single-client histories (insert/update/delete/batch/search-delete/reopen/abandon/settings switches) over all drawn configurations are compared after every step with a map model through every read path, absent ids looked up twice; a violation is minimised and replayed in a fresh process before it is reported.","Sampling of histories and configurations; the model and value domains of DESIGN 5; yields only at shim calls.","7/C01")
add('C02','exploration',SEQ+"; brute-force query oracle","Every step's state is probed with every operator over indexed and unindexed paths (nested, nil pointers, embedded), And/Or chains and search-delete; results must equal the model's brute-force denotation (soundness and completeness).","Sampled probes per sweep (seeded subset of paths; all operators); regexp semantics of package regexp.","7/C02")
add('C03','exploration',SEQ+"; uniqueness iff-oracle","Collision-rich histories with 1-3 unique fields (incl. int64 beyond 2^53, time, case-normalised strings); every write is rejected with the uniqueness class iff the model finds a different holder; values released by delete/update are reused next step, also right after reopen.","Sampling; batch ambiguity (conflict only with a value the same batch replaces) accepts both readings.","7/C03")
add('C04','exploration',SEQ+"; restart at arbitrary positions","Close/reopen and (sync mode) handle abandonment at arbitrary positions; the same observation plan is executed before and after, both against the model, and the history continues on the new handle.","Abandonment is a crash at an operation boundary only (mid-operation crashes are C05).","7/C04")
add('C07','exploration',SEQ+"; batch oracle","Batches of any shape (offender at any position, intra-batch conflicts, repeated pointer, updates mixed with inserts, foreign type, unserialisable member) and bulk chunk sizes; (n, err) and the state must equal the model's all-or-nothing / whole-chunk semantics.","Sampling of batch shapes.","7/C07")
add('C13','exploration',SEQ+"; order oracle","For queries ending on an indexed field: Collect non-increasing, Reverse non-decreasing, Limit(n) for n in {0,1,2,m-1,m,m+1,huge} is a prefix of the ordered matches (ties as multisets), One is the first, AssignIndex is the typed multiset of the field; on contents with ties produced by histories incl. reload.","No schedule/fault dimension is claimed for this property (DESIGN 8).","7/C13")
add('C14','exploration',SEQ+"; scribble fault + differential attribution","The harness overwrites, in place, everything reachable from every object it passed in or got back (slices incl. spare capacity, maps, pointees, slice of pointers inside a map, interface holding containers); later reads must still equal the model; a divergence that disappears with scribbling off is an aliasing violation.","Shapes limited to the harness record type.","7/C14")
add('C15','exploration',SEQ+"; hook event log on the simulator's global sequence","Transform/Validate are logged with the global event sequence that also stamps file mutations: per stored object Transform < case transform visible in Validate's snapshot < first file mutation, on single, batch and bulk paths; invalid objects never visible and error is ErrInvalidObject.","File-mutation ordering clause only in sync mode and single-chunk calls.","7/C15")
add('C16','exploration',SEQ+"; per-rune case model","Mixed-case / non-ASCII strings on upper/lower paths (top, nested, behind nil and non-nil pointers; indexed, unindexed, unique): stored value canonical, probes of any case find exactly the model's matches, uniqueness on canonical values, again after reopen.","Canonical case = per-rune simple Unicode mapping.","7/C16")
add('C20','exploration',SEQ+"; held searches","Searches are evaluated, held across 1..k arbitrary writes and then collected (Collect/Assign/Reverse/One): only evaluation-time matches, each once, current content; an error only if a matched object was deleted.","Sampling of queries and intervening writes.","7/C20")
checks=[]
for i in sorted(C):
    level,tech,text,note,ref=C[i]
    checks.append({"property_id":i,"quick_cmd":f"./run.sh {i} quick","thorough_cmd":f"./run.sh {i} thorough",
      "evidence_file":f"/verif/evidence/{i}.json","replay_cmd_template":"./run.sh replay {path}","engine":"simcheck",
      "level_claimed":{"category":level,"text":text,"design_ref":"DESIGN.md section "+ref},"level_note":note,"technique":tech})
na=[{"property_id":p['id'],"reason":"check under construction in this session (scenario not built yet); see DESIGN.md section 7"} for p in props if p['id'] not in C]
m={"version":1,"setup_cmd":"cd /verif/sim && ./setup.sh",
 "hooks":{"guard":"none","enable":"no hooks in /repo: every check rewrites a scratch copy of /repo's working tree (imports os, io/ioutil, time, sync -> simulator shims; go statements; map ranges) and builds its worker against it","baseline_off_cmd":"cd /repo && go test -vet=off -count=1 -timeout 25m ./...","source_commits":[],"add_only":True},
 "engines":[{"name":"simcheck","path":"/verif/sim","serves_properties":sorted(C),"kind_free_text":"deterministic whole-package simulator: seeded cooperative scheduler, discrete-event clock, in-memory file system with op log and fault injection, reference model, seeded search over histories/schedules/faults, ddmin + fresh-process replay"}],
 "checks":checks,"not_applicable":na,
 "notes":"exit 0 clean / 1 VIOLATION / 2 machinery trouble. VERIF_SEED selects the seed, VERIF_SECS overrides the wall budget of the search phase."}
json.dump(m,open('/verif/MANIFEST.json','w'),indent=1)
print(len(checks),'checks',len(na),'n/a')
