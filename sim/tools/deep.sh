#!/bin/bash
# deep.sh <secs> <seed> [props...] : run the thorough tier of the given checks (default: all) with a
# reduced budget into $VERIF_OUT (default <checkout>/deep-out) - meant for `vp run` on a snapshot
SECS=${1:-150}; SEED=${2:-4242}; shift 2
PROPS=${@:-C01 C02 C03 C04 C05 C06 C07 C08 C09 C10 C11 C12 C13 C14 C15 C16 C17 C18 C19 C20}
HERE=$(cd "$(dirname "$0")/../.." && pwd)
export VERIF_OUT=${VERIF_OUT:-$HERE/deep-out}
mkdir -p $VERIF_OUT
for p in $PROPS; do
  VERIF_SECS=$SECS VERIF_SEED=$SEED $HERE/run.sh $p thorough > $VERIF_OUT/$p.log 2>&1
  echo "$p exit=$? $(tail -1 $VERIF_OUT/$p.log | cut -c1-170)"
done
