#!/bin/bash
# tools/seeded.sh <ID> [extra props...] : take /tmp/agent-<ID>/SEEDED, confirm it independently in a fresh
# scratch worktree (builds, existing suite passes, demo fails with / passes without the change), run the
# check(s) against it and write /verif/seeded/<ID>/{patch.diff,demo_test.go,README.md,meta.json}
export GOFLAGS=-mod=mod GOPROXY=off GOSUMDB=off GOTOOLCHAIN=local
# usage: seeded.sh <PROP> [<source SEEDED dir> [<name under /verif/seeded>]]
ID=$1; PROPS="$ID $EXTRA_PROPS"
SRC=${2:-/tmp/agent-$ID/SEEDED}; NAME=${3:-$ID}; DST=/verif/seeded/$NAME
if [ -f $SRC/patch.diff ]; then
  mkdir -p $DST; cp $SRC/patch.diff $SRC/demo_test.go $DST/; cp $SRC/README.md $DST/README.md 2>/dev/null
fi
[ -f $DST/patch.diff ] || { echo "no patch for $ID"; exit 2; }
WT=$(mktemp -d /tmp/seedwt-XXXX); rmdir $WT
git -C /repo worktree add -q $WT HEAD || exit 2
cd $WT
DEMOFLAGS=""; grep -q "race" $DST/README.md 2>/dev/null && [ "$ID" = C08 ] && DEMOFLAGS="-race"
cp $DST/demo_test.go . ; base_demo=$(go test $DEMOFLAGS -vet=off -count=1 -run TestSeededDemo . 2>&1 | tail -1); rm demo_test.go
applies=no
if git apply $DST/patch.diff 2>/dev/null; then applies=yes
elif patch -p1 --fuzz=3 -s < $DST/patch.diff; then
  # the tree moved since the change was written (later fix: commits): store the rebased patch
  applies="yes (rebased onto $(git -C /repo rev-parse --short HEAD))"; rm -f *.orig; git diff -- '*.go' > $DST/patch.diff
else echo "PATCH DOES NOT APPLY"; cd /; git -C /repo worktree remove --force $WT; exit 2; fi
builds=no; go build ./... 2>/dev/null && builds=yes
suite=$(go test -vet=off -count=1 -timeout 20m . 2>&1 | grep -E "^(ok|FAIL|---)" | tr '\n' ' ')
cp $DST/demo_test.go . ; mut_demo=$(go test $DEMOFLAGS -vet=off -count=1 -run TestSeededDemo . 2>&1 | grep -E "^(ok|FAIL|--- FAIL)" | head -2 | tr '\n' ' '); rm demo_test.go
results=""
for p in $PROPS; do
  out=$(cd /verif && VERIF_REPO=$WT VERIF_OUT=/tmp/seedout-$NAME VERIF_SECS=${SECS:-30} ./run.sh $p quick 2>&1)
  code=$?
  sig=$(echo "$out" | grep -m1 '^violation' | cut -c1-160)
  results="$results{\"check\":\"$p\",\"exit\":$code,\"reported\":\"$sig\"},"
  echo "== $NAME checked by $p: exit=$code $sig"
done
cd /; git -C /repo worktree remove --force $WT
python3 - "$ID" "$NAME" "$applies" "$builds" "$suite" "$base_demo" "$mut_demo" "[${results%,}]" <<'PY'
import sys,json
ID,NAME,applies,builds,suite,base,mut,res=sys.argv[1:9]
meta={"breaks_property":ID,"source":"fresh sub-agent given only the property text and a scratch worktree",
 "needs_to_manifest":json.load(open("/verif/seeded/summaries.json")).get(NAME,"see README.md"),
 "confirmed":{"patch_applies":applies,"builds":builds,"existing_suite_with_change":suite.strip(),
   "demo_on_unchanged_sources":base.strip(),"demo_with_change":mut.strip()},
 "checks_run":json.loads(res),"commands":"sim/tools/seeded.sh "+ID+" <dir> "+NAME}
json.dump(meta,open(f"/verif/seeded/{NAME}/meta.json","w"),indent=1)
print(json.dumps(meta["confirmed"]))
PY
rm -rf /tmp/seedout-$NAME
