#!/bin/bash
# tools/mutant.sh <patch> <secs> <prop>... : apply patch to a scratch worktree of /repo HEAD, run the quick checks there
P=$(readlink -f "$1"); SECS=$2; shift 2
WT=$(mktemp -d /tmp/mut-XXXX); rmdir $WT
git -C /repo worktree add -q $WT HEAD || exit 2
if ! git -C $WT apply "$P"; then echo "PATCH DOES NOT APPLY"; git -C /repo worktree remove --force $WT; exit 2; fi
(cd $WT && go build ./... ) || { echo "DOES NOT BUILD"; git -C /repo worktree remove --force $WT; exit 2; }
for prop in "$@"; do
  out=$(cd /verif && VERIF_REPO=$WT VERIF_SECS=$SECS VERIF_OUT=/tmp/mutout ./run.sh $prop quick 2>&1)
  code=$?
  echo "== $prop exit=$code $(echo "$out" | grep -m1 '^violation\|VIOLATION' | cut -c1-200)"
done
git -C /repo worktree remove --force $WT
