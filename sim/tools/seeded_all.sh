#!/bin/bash
# re-evaluates every stored seeded change (3 in parallel, staggered) and regenerates seeded/RESULTS.md
cd /verif/seeded
names=$(ls -d C* | tr '\n' ' ')
run() { for n in "$@"; do p=${n:0:3}; extra=""; [ "$n" = C01b ] && extra="C14"; [ "$n" = C03c ] && extra="C01"; [ "$n" = C08e ] && extra="C20"; [ "$n" = C18e ] && extra="C11"; EXTRA_PROPS="$extra" /verif/sim/tools/seeded.sh $p /verif/seeded/$n $n > /tmp/seeded_$n.log 2>&1; echo "$n: $(grep '^==' /tmp/seeded_$n.log | cut -c1-160 | tr '\n' ' ')"; done; }
set -- $names
a=(); b=(); c=(); i=0
for n in "$@"; do case $((i%3)) in 0) a+=($n);; 1) b+=($n);; 2) c+=($n);; esac; i=$((i+1)); done
run "${a[@]}" & sleep 7; run "${b[@]}" & sleep 7; run "${c[@]}" & wait
