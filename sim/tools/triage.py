#!/usr/bin/env python3
import json,collections,sys
f=sys.argv[1]; want=sys.argv[2] if len(sys.argv)>2 else None
rs=[json.loads(l) for l in open(f)]
c=collections.Counter(); ex={}
inc=0
for r in rs:
    if r.get('inconclusive'): inc+=1
    v=r.get('violation')
    if v:
        c[v['sig']]+=1
        if v['sig'] not in ex or r['n_ops']<ex[v['sig']]['n_ops']: ex[v['sig']]=r
print(len(rs),'runs',sum(c.values()),'violations',inc,'inconclusive')
for k,n in c.most_common(): print(f'{n:5d} {k}   seed={ex[k]["params"]["seed"]} nops={ex[k]["n_ops"]}')
if want:
    for k,r in ex.items():
        if want in k:
            print('=====',k,r['params']['seed'],r['config']); print(r['violation']['msg'][:2500])
            print('step',r['violation']['step'],r['violation']['op'])
            for o in r.get('ops',[]): print('  ',o[:160])
