#!/bin/bash
# Determinism self-test: every scenario, N seeds, 3 fresh processes each (GOMAXPROCS 1 / 4 / 16),
# full result lines (event-log digest, steps, simulated time, stats, violation) must be identical.
# usage: determinism.sh [N] [race]
N=${1:-200}
export GOFLAGS=-mod=mod GOPROXY=off GOSUMDB=off GOTOOLCHAIN=local
SCR=$(mktemp -d /tmp/detsim-XXXX)
/verif/sim/build.sh $SCR/b $2 >/dev/null || exit 2
BIN=$SCR/b/simworker; [ "$2" = race ] && BIN=$SCR/b/simworker-race
fail=0
for ps in C01:seq C03:seq C10:seq C14:seq C17:guard C05:crash C06:iofault C08:conc C09:conc C11:repair C12:diff C19:mangle C18:golden; do
  p=${ps%%:*}; s=${ps##*:}
  for g in 1 4 16; do
    GOMAXPROCS=$g GORACE="halt_on_error=0 log_path=$SCR/race$g" $BIN -prop $p -scen $s -seed 77 -n $N > $SCR/$p.$s.$g.jsonl &
  done
  wait
  if cmp -s $SCR/$p.$s.1.jsonl $SCR/$p.$s.4.jsonl && cmp -s $SCR/$p.$s.1.jsonl $SCR/$p.$s.16.jsonl; then
    echo "deterministic: $p/$s ($(wc -l < $SCR/$p.$s.1.jsonl) runs x 3 processes)"
  else
    echo "NONDETERMINISTIC: $p/$s"; fail=1
    diff <(cut -c1-300 $SCR/$p.$s.1.jsonl) <(cut -c1-300 $SCR/$p.$s.16.jsonl) | head -6
  fi
done
rm -rf $SCR
exit $fail
