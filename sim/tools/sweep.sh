#!/bin/bash
# dev helper: build from /repo's working tree and run N runs for each given property
# usage: sweep.sh N prop...
set -e
N=$1; shift
SCR=/tmp/sb
/verif/sim/build.sh $SCR
: > $SCR/all.jsonl
for p in "$@"; do
  for w in 0 1 2 3 4 5 6 7; do
    ( $SCR/simworker -prop $p -scen ${SCEN:-seq} -seed ${SEED:-1} -from $w -stride 8 -known $SCR/known.txt -n $((N/8)) -v > $SCR/out.$p.$w.jsonl ) &
  done
  wait
  cat $SCR/out.$p.*.jsonl > $SCR/out.$p.jsonl; rm $SCR/out.$p.?.jsonl
  cat $SCR/out.$p.jsonl >> $SCR/all.jsonl
done
/verif/sim/tools/triage.py $SCR/all.jsonl
