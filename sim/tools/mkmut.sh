#!/bin/bash
# tools/mkmut.sh <name> <file> <old> <new> : make /verif/mutants/<name>.patch by exact string replacement of
# <old> by <new> in <file>, in a scratch worktree of /repo HEAD (the working tree of /repo is not touched)
set -e
export GOFLAGS=-mod=mod GOPROXY=off GOSUMDB=off GOTOOLCHAIN=local
WT=$(mktemp -d /tmp/mkmut-XXXX); rmdir $WT
git -C /repo worktree add -q $WT HEAD
trap 'git -C /repo worktree remove --force $WT' EXIT
cd $WT
python3 - "$2" "$3" "$4" <<'PY'
import sys
f,old,new=sys.argv[1:4]
s=open(f).read()
assert old in s, "pattern not found"
open(f,'w').write(s.replace(old,new,1))
PY
go build ./...
git diff > /verif/mutants/$1.patch
echo "made $1"
