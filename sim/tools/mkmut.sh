#!/bin/bash
# tools/mkmut.sh <name> <file> <python-expr old> <new> : make /verif/mutants/<name>.patch by exact string replacement in /repo/<file>
set -e
cd /repo
python3 - "$2" "$3" "$4" <<'PY'
import sys
f,old,new=sys.argv[1:4]
s=open(f).read()
assert old in s, "pattern not found"
open(f,'w').write(s.replace(old,new,1))
PY
go build ./... 
git diff > /verif/mutants/$1.patch
git checkout -- .
echo "made $1"
