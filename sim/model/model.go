package model

import (
	"bytes"
	"encoding/json"
	"fmt"
	"regexp"
	"sort"
	"strings"
	"unicode/utf8"

	"verifsim/shapes"
)

// Cons mirrors the four constraints a field can carry.
type Cons struct {
	Index  bool `json:"index,omitempty"`
	Unique bool `json:"unique,omitempty"`
	Upper  bool `json:"upper,omitempty"`
	Lower  bool `json:"lower,omitempty"`
}

func (c Cons) Indexed() bool { return c.Index || c.Unique }

// Model is the reference state of one collection of shapes.Rec.
type Model struct {
	Cons map[string]Cons
	Objs map[int]*shapes.Rec // live objects by logical id (private deep copies)
	UUID map[int]string      // uuid of every lid that was ever stored
}

func New(cons map[string]Cons) *Model {
	return &Model{Cons: cons, Objs: map[int]*shapes.Rec{}, UUID: map[int]string{}}
}

// Clone makes a private deep copy through JSON, the only representation the
// database promises to preserve.
func Clone(r *shapes.Rec) *shapes.Rec {
	b, err := json.Marshal(r)
	if err != nil {
		panic(fmt.Sprintf("model.Clone: %v", err))
	}
	out := &shapes.Rec{}
	if err := json.Unmarshal(b, out); err != nil {
		panic(fmt.Sprintf("model.Clone: %v", err))
	}
	out.Initialize(r.UUID())
	return out
}

// JSON is the canonical encoding used for equality.
func JSON(r *shapes.Rec) string {
	b, err := json.Marshal(r)
	if err != nil {
		return "!unserialisable:" + err.Error()
	}
	// encoding/json writes a byte that is not valid UTF-8 as the escape \ufffd and the
	// replacement character itself (what that byte has become after a round trip
	// through a file) literally: one spelling for both
	if bytes.Contains(b, []byte(`\ufffd`)) {
		b = bytes.ReplaceAll(b, []byte(`\ufffd`), []byte("\uFFFD"))
	}
	return string(b)
}

func (m *Model) CopyState() *Model {
	c := New(m.Cons)
	for k, v := range m.Objs {
		c.Objs[k] = Clone(v)
	}
	for k, v := range m.UUID {
		c.UUID[k] = v
	}
	return c
}

func (m *Model) Lids() []int {
	out := make([]int, 0, len(m.Objs))
	for k := range m.Objs {
		out = append(out, k)
	}
	sort.Ints(out)
	return out
}

func (m *Model) ConsPaths() []string {
	out := make([]string, 0, len(m.Cons))
	for k := range m.Cons {
		out = append(out, k)
	}
	sort.Strings(out)
	return out
}

// Canon applies, in the order the property C15 states, the object's own
// Transform and then the schema's case transforms.
func (m *Model) Canon(r *shapes.Rec) {
	r.Der = shapes.Derive(r.Raw)
	for _, p := range m.ConsPaths() {
		c := m.Cons[p]
		if c.Upper {
			SetCase(r, p, true)
		}
		if c.Lower {
			SetCase(r, p, false)
		}
	}
}

// Valid is the validity predicate of shapes.Rec (on the canonical value).
func Valid(r *shapes.Rec) bool { return !strings.HasPrefix(r.Der, "d:bad") }

// Serialisable reports whether JSON can carry the value.
func Serialisable(r *shapes.Rec) bool {
	_, err := json.Marshal(r)
	return err == nil
}

// Conflicts lists the unique paths on which a *different* live object holds
// the same canonical value as r.
func (m *Model) Conflicts(r *shapes.Rec, self int) []string {
	var out []string
	for _, p := range m.ConsPaths() {
		if !m.Cons[p].Unique {
			continue
		}
		x, _ := FieldValue(r, p)
		nx, _ := Normalise(x)
		for _, lid := range m.Lids() {
			if lid == self {
				continue
			}
			y, _ := FieldValue(m.Objs[lid], p)
			ny, _ := Normalise(y)
			if Cmp(nx, ny) == 0 {
				out = append(out, p)
				break
			}
		}
	}
	return out
}

func (m *Model) Put(lid int, r *shapes.Rec) {
	c := Clone(r)
	m.Objs[lid] = c
	m.UUID[lid] = r.UUID()
}

func (m *Model) Delete(lid int) { delete(m.Objs, lid) }

// PrepProbe canonicalises a probe for a case-constrained path.
func (m *Model) PrepProbe(path string, probe interface{}) interface{} {
	c := m.Cons[path]
	if s, ok := probe.(string); ok {
		// values are compared the way the files hold them: through encoding/json
		if !utf8.ValidString(s) {
			b, _ := json.Marshal(s)
			json.Unmarshal(b, &s)
		}
		if c.Upper {
			s = Case(s, true)
		}
		if c.Lower {
			s = Case(s, false)
		}
		return s
	}
	return probe
}

// Search error classes.
const (
	EOK             = ""
	EUnknownF       = "unknown-field"
	EKeyType        = "unknown-key-type"
	ECasting        = "casting"
	EOperator       = "unknown-operator"
	EBadRegex       = "bad-regex"
	ERegexNonString = "regex-on-non-string"
	EAnyErr         = "error"
	ENotFound       = "not-found"
	EUnique         = "unique"
	EInvalid        = "invalid"
	EWrongType      = "wrong-type"
	ENoSchema       = "no-schema"
	EUnserial       = "unserialisable"
)

// Match evaluates one comparison over the live objects by brute force.
func (m *Model) Match(path, op string, probe interface{}) ([]int, string) {
	if _, exists := FieldValue(&shapes.Rec{}, path); !exists {
		return nil, EUnknownF
	}
	class, ok := FieldClass(&shapes.Rec{}, path)
	if !ok {
		return nil, EKeyType // a struct, slice or map: not a searchable kind
	}
	probe = m.PrepProbe(path, probe)
	np, ok := Normalise(probe)
	if !ok {
		return nil, EKeyType
	}
	if np.K != class {
		return nil, ECasting
	}
	known := false
	for _, o := range Ops {
		if o == op {
			known = true
		}
	}
	if !known {
		return nil, EOperator
	}
	var rex *regexp.Regexp
	if op == "~=" {
		if class != 's' {
			// a pattern match on a non-string field: nothing can match; an error or an
			// empty result are both valid answers, objects or a panic are not
			return nil, ERegexNonString
		}
		var err error
		if rex, err = regexp.Compile(np.S); err != nil {
			return nil, EBadRegex
		}
	}
	var out []int
	for _, lid := range m.Lids() {
		x, _ := FieldValue(m.Objs[lid], path)
		nx, _ := Normalise(x)
		if Eval(nx, op, np, rex) {
			out = append(out, lid)
		}
	}
	return out, EOK
}

// FieldOf returns the normalised value of a live object's field.
func (m *Model) FieldOf(lid int, path string) NVal {
	x, _ := FieldValue(m.Objs[lid], path)
	n, _ := Normalise(x)
	return n
}
