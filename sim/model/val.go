// Package model is the executable reference the simulated runs are compared
// with. It is written from the property statements, not from the code: a map
// from logical id to the last accepted value plus brute-force evaluation of
// every query.
package model

import (
	"fmt"
	"math"
	"reflect"
	"regexp"
	"strings"
	"time"
	"unicode"
)

// NVal is a field or probe value normalised to one of the four orderings the
// properties name: signed, unsigned, float, string (time = signed UnixNano).
type NVal struct {
	K byte // 'i' 'u' 'f' 's'
	I int64
	U uint64
	F float64
	S string
}

func (v NVal) String() string {
	switch v.K {
	case 'i':
		return fmt.Sprintf("i:%d", v.I)
	case 'u':
		return fmt.Sprintf("u:%d", v.U)
	case 'f':
		return fmt.Sprintf("f:%v", v.F)
	case 's':
		return fmt.Sprintf("s:%q", v.S)
	}
	return "?"
}

var timeT = reflect.TypeOf(time.Time{})

// Normalise maps a Go value of a supported kind to NVal; ok=false otherwise.
func Normalise(x interface{}) (NVal, bool) {
	if x == nil {
		return NVal{}, false
	}
	if t, ok := x.(time.Time); ok {
		// UnixNano is undefined beyond 1678..2262. The only such value the record model
		// meets is the zero Time (a time behind a nil pointer): it is ordered before every
		// time of the pools, whose smallest member is one nanosecond above the minimum
		// (the probe of scen/stamp.go compares arbitrary times beyond the range exactly).
		switch {
		case t.Before(time.Unix(0, math.MinInt64)):
			return NVal{K: 'i', I: math.MinInt64}, true
		case t.After(time.Unix(0, math.MaxInt64)):
			return NVal{K: 'i', I: math.MaxInt64}, true
		}
		return NVal{K: 'i', I: t.UnixNano()}, true
	}
	v := reflect.ValueOf(x)
	switch v.Kind() {
	case reflect.Int, reflect.Int8, reflect.Int16, reflect.Int32, reflect.Int64:
		return NVal{K: 'i', I: v.Int()}, true
	case reflect.Uint, reflect.Uint8, reflect.Uint16, reflect.Uint32, reflect.Uint64:
		return NVal{K: 'u', U: v.Uint()}, true
	case reflect.Float32, reflect.Float64:
		return NVal{K: 'f', F: v.Float()}, true
	case reflect.String:
		return NVal{K: 's', S: v.String()}, true
	}
	return NVal{}, false
}

// Cmp compares two values of the same class.
func Cmp(a, b NVal) int {
	switch a.K {
	case 'i':
		switch {
		case a.I < b.I:
			return -1
		case a.I > b.I:
			return 1
		}
	case 'u':
		switch {
		case a.U < b.U:
			return -1
		case a.U > b.U:
			return 1
		}
	case 'f':
		switch {
		case a.F < b.F:
			return -1
		case a.F > b.F:
			return 1
		}
	case 's':
		return strings.Compare(a.S, b.S)
	}
	return 0
}

// FieldValue walks a dotted path from a struct (or pointer to struct); a nil
// pointer on the way denotes the zero value of what it points to.
func FieldValue(obj interface{}, path string) (interface{}, bool) {
	v := reflect.ValueOf(obj)
	for _, name := range strings.Split(path, ".") {
		for v.Kind() == reflect.Ptr {
			if v.IsNil() {
				v = reflect.Zero(v.Type().Elem())
			} else {
				v = v.Elem()
			}
		}
		if v.Kind() != reflect.Struct {
			return nil, false
		}
		if sf, ok := v.Type().FieldByName(name); !ok || !sf.IsExported() {
			return nil, false // only exported fields are part of an object's value
		}
		v = v.FieldByName(name)
		if !v.IsValid() {
			return nil, false
		}
	}
	for v.Kind() == reflect.Ptr {
		if v.IsNil() {
			v = reflect.Zero(v.Type().Elem())
		} else {
			v = v.Elem()
		}
	}
	return v.Interface(), true
}

// FieldClass returns the ordering class of the field at path of type t.
func FieldClass(obj interface{}, path string) (byte, bool) {
	x, ok := FieldValue(obj, path)
	if !ok {
		return 0, false
	}
	n, ok := Normalise(x)
	return n.K, ok
}

// SetCase canonicalises the string at path (through non-nil pointers only).
func SetCase(obj interface{}, path string, upper bool) {
	v := reflect.ValueOf(obj)
	for _, name := range strings.Split(path, ".") {
		for v.Kind() == reflect.Ptr {
			if v.IsNil() {
				return
			}
			v = v.Elem()
		}
		if v.Kind() != reflect.Struct {
			return
		}
		v = v.FieldByName(name)
		if !v.IsValid() {
			return
		}
	}
	if v.Kind() == reflect.String && v.CanSet() {
		v.SetString(Case(v.String(), upper))
	}
}

// Case is the per-rune simple Unicode case mapping.
func Case(s string, upper bool) string {
	var b strings.Builder
	for _, r := range s {
		if upper {
			b.WriteRune(unicode.ToUpper(r))
		} else {
			b.WriteRune(unicode.ToLower(r))
		}
	}
	return b.String()
}

// Eval evaluates `field op probe` for two values of one class.
// For "~=" the probe is a pattern (already validated).
func Eval(field NVal, op string, probe NVal, rex *regexp.Regexp) bool {
	switch op {
	case "=":
		return Cmp(field, probe) == 0
	case "!=":
		return Cmp(field, probe) != 0
	case "<":
		return Cmp(field, probe) < 0
	case "<=":
		return Cmp(field, probe) <= 0
	case ">":
		return Cmp(field, probe) > 0
	case ">=":
		return Cmp(field, probe) >= 0
	case "~=":
		return rex != nil && field.K == 's' && rex.MatchString(field.S)
	}
	return false
}

// IsNaNInf reports float values JSON cannot carry.
func IsNaNInf(f float64) bool { return math.IsNaN(f) || math.IsInf(f, 0) }

var Ops = []string{"=", "!=", "<", "<=", ">", ">=", "~="}
