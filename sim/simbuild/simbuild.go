// Package simbuild copies the working tree of the package under test to a
// scratch directory and rewrites it mechanically so that every source of
// nondeterminism goes through a seam owned by the simulator:
//
//   - imports os, io/ioutil, time, sync  ->  verifsim/simshim/...
//   - go f(x)                            ->  simrt.Go(func(){ f(x) })
//   - for k, v := range <map>            ->  iteration in a seeded key order
//
// The rewrite is keyed on import paths, GoStmt nodes and map types only.
package simbuild

import (
	"bytes"
	"crypto/sha256"
	"encoding/hex"
	"fmt"
	"go/ast"
	"go/format"
	"go/importer"
	"go/parser"
	"go/token"
	"go/types"
	"os"
	"path/filepath"
	"sort"
	"strconv"
	"strings"
)

var importMap = map[string]string{
	"os":        "verifsim/simshim/os",
	"io/ioutil": "verifsim/simshim/ioutil",
	"time":      "verifsim/simshim/time",
	"sync":      "verifsim/simshim/sync",
}

type Result struct {
	Dir         string
	Fingerprint string
	Files       []string
	GoStmts     int
	MapRanges   int
	ReflectMaps int
	Imports     int
	TypeErrors  []string
}

// Build rewrites the root package of repo into dst (created).
func Build(repo, dst string) (*Result, error) {
	res := &Result{Dir: dst}
	if err := os.MkdirAll(dst, 0755); err != nil {
		return nil, err
	}
	entries, err := os.ReadDir(repo)
	if err != nil {
		return nil, err
	}
	fset := token.NewFileSet()
	var files []*ast.File
	var names []string
	for _, e := range entries {
		n := e.Name()
		if e.IsDir() || !strings.HasSuffix(n, ".go") || strings.HasSuffix(n, "_test.go") {
			continue
		}
		src, err := os.ReadFile(filepath.Join(repo, n))
		if err != nil {
			return nil, err
		}
		f, err := parser.ParseFile(fset, n, src, parser.ParseComments)
		if err != nil {
			return nil, fmt.Errorf("parse %s: %w", n, err)
		}
		files = append(files, f)
		names = append(names, n)
	}
	if len(files) == 0 {
		return nil, fmt.Errorf("no go files in %s", repo)
	}
	for _, aux := range []string{"go.mod", "go.sum"} {
		b, err := os.ReadFile(filepath.Join(repo, aux))
		if err != nil {
			return nil, err
		}
		if err := os.WriteFile(filepath.Join(dst, aux), b, 0644); err != nil {
			return nil, err
		}
	}

	// type-check the original sources (for map-typed range expressions)
	info := &types.Info{Types: map[ast.Expr]types.TypeAndValue{}}
	cwd, _ := os.Getwd()
	if err := os.Chdir(repo); err == nil {
		defer os.Chdir(cwd)
	}
	conf := types.Config{
		Importer: importer.ForCompiler(fset, "source", nil),
		Error: func(err error) {
			if len(res.TypeErrors) < 20 {
				res.TypeErrors = append(res.TypeErrors, err.Error())
			}
		},
	}
	conf.Check(files[0].Name.Name, fset, files, info)
	if len(res.TypeErrors) > 0 {
		return nil, fmt.Errorf("type-check of %s failed (the copy would not build either): %s", repo, strings.Join(res.TypeErrors, "; "))
	}

	h := sha256.New()
	counter := 0
	for i, f := range files {
		needRT := false
		// imports
		for _, imp := range f.Imports {
			p, _ := strconv.Unquote(imp.Path.Value)
			if np, ok := importMap[p]; ok {
				imp.Path.Value = strconv.Quote(np)
				res.Imports++
			}
		}
		// statements
		rewriteStmts(f, info, &counter, res, &needRT)
		if needRT {
			addImport(f, "verifsim/simrt")
		}
		var buf bytes.Buffer
		if err := format.Node(&buf, fset, f); err != nil {
			return nil, fmt.Errorf("format %s: %w", names[i], err)
		}
		h.Write([]byte(names[i]))
		h.Write(buf.Bytes())
		if err := os.WriteFile(filepath.Join(dst, names[i]), buf.Bytes(), 0644); err != nil {
			return nil, err
		}
		res.Files = append(res.Files, names[i])
	}
	res.Fingerprint = hex.EncodeToString(h.Sum(nil))[:16]
	sort.Strings(res.Files)
	if err := selfTest(dst, res); err != nil {
		return nil, err
	}
	return res, nil
}

func addImport(f *ast.File, path string) {
	spec := &ast.ImportSpec{Path: &ast.BasicLit{Kind: token.STRING, Value: strconv.Quote(path)}}
	for _, d := range f.Decls {
		if g, ok := d.(*ast.GenDecl); ok && g.Tok == token.IMPORT {
			g.Specs = append(g.Specs, spec)
			if !g.Lparen.IsValid() {
				g.Lparen = g.Pos()
				g.Rparen = g.End()
			}
			f.Imports = append(f.Imports, spec)
			return
		}
	}
	g := &ast.GenDecl{Tok: token.IMPORT, Specs: []ast.Spec{spec}}
	f.Decls = append([]ast.Decl{g}, f.Decls...)
	f.Imports = append(f.Imports, spec)
}

func sel(pkg, name string) ast.Expr {
	return &ast.SelectorExpr{X: ast.NewIdent(pkg), Sel: ast.NewIdent(name)}
}

func isBlank(e ast.Expr) bool {
	if e == nil {
		return true
	}
	id, ok := e.(*ast.Ident)
	return ok && id.Name == "_"
}

// rewriteStmts walks every statement list of the file and replaces go
// statements and map ranges in place.
func rewriteStmts(f *ast.File, info *types.Info, counter *int, res *Result, needRT *bool) {
	var fix func(s ast.Stmt) ast.Stmt
	fix = func(s ast.Stmt) ast.Stmt {
		switch st := s.(type) {
		case *ast.GoStmt:
			res.GoStmts++
			*needRT = true
			return rewriteGo(st, counter)
		case *ast.RangeStmt:
			if tv, ok := info.Types[st.X]; ok && tv.Type != nil {
				if _, isMap := tv.Type.Underlying().(*types.Map); isMap {
					res.MapRanges++
					*needRT = true
					return rewriteRange(st, counter)
				}
			}
		case *ast.LabeledStmt:
			st.Stmt = fix(st.Stmt)
		}
		return s
	}
	ast.Inspect(f, func(n ast.Node) bool {
		switch b := n.(type) {
		case *ast.CallExpr:
			// reflect.Value.MapRange / MapKeys iterate in the runtime's random map order:
			// v.MapRange() -> simrt.MapRange(v), v.MapKeys() -> simrt.MapKeys(v)
			if se, ok := b.Fun.(*ast.SelectorExpr); ok && len(b.Args) == 0 && (se.Sel.Name == "MapRange" || se.Sel.Name == "MapKeys") {
				if tv, ok := info.Types[se.X]; ok && tv.Type != nil && tv.Type.String() == "reflect.Value" {
					b.Fun = sel("simrt", se.Sel.Name)
					b.Args = []ast.Expr{se.X}
					res.ReflectMaps++
					*needRT = true
				}
			}
		case *ast.BlockStmt:
			for i, s := range b.List {
				b.List[i] = fix(s)
			}
		case *ast.CaseClause:
			for i, s := range b.Body {
				b.Body[i] = fix(s)
			}
		case *ast.CommClause:
			for i, s := range b.Body {
				b.Body[i] = fix(s)
			}
		}
		return true
	})
}

func rewriteGo(st *ast.GoStmt, counter *int) ast.Stmt {
	call := st.Call
	// go func(){...}()  ->  simrt.Go(func(){...})
	if fl, ok := call.Fun.(*ast.FuncLit); ok && len(call.Args) == 0 && fl.Type.Params.NumFields() == 0 && fl.Type.Results.NumFields() == 0 {
		return &ast.ExprStmt{X: &ast.CallExpr{Fun: sel("simrt", "Go"), Args: []ast.Expr{fl}}}
	}
	// general form: arguments are evaluated at the spawn point
	var stmts []ast.Stmt
	var args []ast.Expr
	for _, a := range call.Args {
		*counter++
		id := ast.NewIdent(fmt.Sprintf("__sim_a%d", *counter))
		stmts = append(stmts, &ast.AssignStmt{Lhs: []ast.Expr{id}, Tok: token.DEFINE, Rhs: []ast.Expr{a}})
		args = append(args, id)
	}
	inner := &ast.CallExpr{Fun: call.Fun, Args: args, Ellipsis: call.Ellipsis}
	lit := &ast.FuncLit{Type: &ast.FuncType{Params: &ast.FieldList{}},
		Body: &ast.BlockStmt{List: []ast.Stmt{&ast.ExprStmt{X: inner}}}}
	stmts = append(stmts, &ast.ExprStmt{X: &ast.CallExpr{Fun: sel("simrt", "Go"), Args: []ast.Expr{lit}}})
	return &ast.BlockStmt{List: stmts}
}

func rewriteRange(st *ast.RangeStmt, counter *int) ast.Stmt {
	*counter++
	e := ast.NewIdent(fmt.Sprintf("__sim_e%d", *counter))
	var pre []ast.Stmt
	// if !e.Live() { continue }
	pre = append(pre, &ast.IfStmt{
		Cond: &ast.UnaryExpr{Op: token.NOT, X: &ast.CallExpr{Fun: &ast.SelectorExpr{X: e, Sel: ast.NewIdent("Live")}}},
		Body: &ast.BlockStmt{List: []ast.Stmt{&ast.BranchStmt{Tok: token.CONTINUE}}},
	})
	var lhs, rhs []ast.Expr
	if !isBlank(st.Key) {
		lhs = append(lhs, st.Key)
		rhs = append(rhs, &ast.SelectorExpr{X: e, Sel: ast.NewIdent("K")})
	}
	if !isBlank(st.Value) {
		lhs = append(lhs, st.Value)
		rhs = append(rhs, &ast.CallExpr{Fun: &ast.SelectorExpr{X: e, Sel: ast.NewIdent("V")}})
	}
	if len(lhs) > 0 {
		tok := st.Tok
		if tok != token.DEFINE && tok != token.ASSIGN {
			tok = token.DEFINE
		}
		pre = append(pre, &ast.AssignStmt{Lhs: lhs, Tok: tok, Rhs: rhs})
	}
	body := &ast.BlockStmt{Lbrace: st.Body.Lbrace, Rbrace: st.Body.Rbrace, List: append(pre, st.Body.List...)}
	return &ast.RangeStmt{
		For:   st.For,
		Key:   ast.NewIdent("_"),
		Value: e,
		Tok:   token.DEFINE,
		X:     &ast.CallExpr{Fun: sel("simrt", "Range"), Args: []ast.Expr{st.X}},
		Body:  body,
	}
}

// selfTest re-parses the output and asserts that nothing escaped the rewrite.
func selfTest(dst string, res *Result) error {
	fset := token.NewFileSet()
	for _, n := range res.Files {
		f, err := parser.ParseFile(fset, filepath.Join(dst, n), nil, 0)
		if err != nil {
			return fmt.Errorf("rewritten %s does not parse: %w", n, err)
		}
		for _, imp := range f.Imports {
			p, _ := strconv.Unquote(imp.Path.Value)
			if _, bad := importMap[p]; bad {
				return fmt.Errorf("rewritten %s still imports %s", n, p)
			}
		}
		var bad error
		ast.Inspect(f, func(n ast.Node) bool {
			if g, ok := n.(*ast.GoStmt); ok {
				bad = fmt.Errorf("go statement left at %s", fset.Position(g.Pos()))
			}
			return true
		})
		if bad != nil {
			return bad
		}
	}
	return nil
}
