package scen

import (
	"fmt"
	"sort"
	"strings"

	"verifsim/simrt"
)

// Params fully determines one simulated run (together with the code).
type Params struct {
	Prop     string `json:"prop"`
	Scenario string `json:"scenario"`
	Seed     uint64 `json:"seed"`
	// minimisation / replay knobs
	Skip    []int          `json:"skip,omitempty"` // op indices removed
	NoScrib bool           `json:"no_scribble,omitempty"`
	Sched   *simrt.Sched   `json:"sched,omitempty"`
	Extra   map[string]int `json:"extra,omitempty"`
	// Batch identifies the position of the run in its worker process (base seed, first index,
	// stride, position): a data race report can depend on what ran before in the process, so
	// its replay re-executes the same worker up to this run.
	Batch []uint64 `json:"batch,omitempty"`
}

// Result is what one run reports.
type Result struct {
	Params    Params            `json:"params"`
	V         *Violation        `json:"violation,omitempty"`
	Digest    uint64            `json:"digest"`
	Class     string            `json:"class"`
	Steps     int               `json:"steps"`
	SimMs     int64             `json:"sim_ms"`
	NOps      int               `json:"n_ops"`
	Stats     map[string]int    `json:"stats,omitempty"`
	Faults    map[string]int    `json:"faults,omitempty"`
	Sample    string            `json:"sample,omitempty"`
	Incon     string            `json:"inconclusive,omitempty"`
	Ops       []string          `json:"ops,omitempty"`
	Config    string            `json:"config,omitempty"`
	Decisions int               `json:"decisions,omitempty"`
	Owned     bool              `json:"owned,omitempty"`  // the violation belongs to the property being checked
	Cases     int               `json:"cases,omitempty"`  // evaluations inside this run (crash states, fault points)
	Known     map[string]string `json:"known,omitempty"`  // listed findings met by this run (pattern -> example)
	Stalls    int               `json:"stalls,omitempty"` // times the stall watchdog intervened (the worker process is retired afterwards)
	Shape     string            `json:"shape,omitempty"`  // coarse signature of the case (distinct counting)
}

// Profiles per property for the seq engine.
var Profiles = map[string]*Profile{
	"C01":   {Name: "C01", MaxOps: 30, UniqueMax: 1, IndexPct: 20, CasePct: 10, W: map[string]int{"create": 7}},
	"C02":   {Name: "C02", MaxOps: 25, UniqueMax: 1, IndexPct: 45, CasePct: 10, W: map[string]int{"sweep": 18, "sdel": 10, "reads": 2}},
	"C03":   {Name: "C03", MaxOps: 30, UniqueMin: 1, UniqueMax: 3, IndexPct: 10, CasePct: 25, W: map[string]int{"update": 40, "del": 14, "reopen": 8, "sweep": 2, "many": 8}},
	"C04":   {Name: "C04", MaxOps: 25, UniqueMax: 2, IndexPct: 40, CasePct: 15, W: map[string]int{"reopen": 16, "abandon": 8}},
	"C05":   {Name: "C05", MaxOps: 12, ForceSync: true, UniqueMax: 1, IndexPct: 25, CasePct: 10, W: map[string]int{"update": 35, "del": 12, "many": 8, "bulk": 4, "reopen": 2, "abandon": 0, "sweep": 1, "reads": 1, "create": 1, "sdel": 4, "drop": 0}},
	"C05A":  {Name: "C05A", MaxOps: 12, ForceAsync: true, UniqueMax: 1, IndexPct: 25, CasePct: 10, W: map[string]int{"update": 35, "del": 12, "many": 6, "bulk": 3, "reopen": 2, "sweep": 1, "reads": 1, "create": 2, "sdel": 4, "sleep": 14, "await": 6, "flush": 8, "small": 2, "drop": 0}},
	"C06":   {Name: "C06", MaxOps: 25, UniqueMin: 1, UniqueMax: 2, IndexPct: 25, CasePct: 15, W: map[string]int{"update": 35}},
	"C06F":  {Name: "C06F", MaxOps: 10, ForceSync: true, UniqueMax: 1, IndexPct: 25, CasePct: 10, W: map[string]int{"update": 35, "del": 12, "many": 8, "bulk": 4, "reopen": 1, "abandon": 0, "sweep": 1, "reads": 1, "create": 1, "sdel": 0, "drop": 0}},
	"C06FA": {Name: "C06FA", MaxOps: 10, ForceAsync: true, UniqueMax: 1, IndexPct: 25, CasePct: 10, W: map[string]int{"update": 35, "del": 12, "many": 8, "bulk": 4, "reopen": 1, "abandon": 0, "sweep": 1, "reads": 1, "create": 0, "sdel": 0, "sleep": 4, "await": 0, "flush": 4, "small": 1, "drop": 0}},
	"C07":   {Name: "C07", MaxOps: 20, UniqueMin: 0, UniqueMax: 2, IndexPct: 20, CasePct: 25, W: map[string]int{"many": 35, "bulk": 25, "save": 15, "update": 10}},
	"C08":   {Name: "C08", MaxOps: 8, UniqueMax: 1, IndexPct: 15, CasePct: 10},
	"C10": {Name: "C10", MaxOps: 25, ForceAsync: true, AsyncOracles: true, UniqueMax: 1, IndexPct: 20, CasePct: 10,
		W: map[string]int{"save": 30, "update": 30, "del": 14, "sdel": 5, "delall": 2, "flush": 10, "sleep": 8, "await": 12, "reopen": 5, "sweep": 3, "reads": 6, "create": 14, "many": 6, "bulk": 2}},
	"C11": {Name: "C11", MaxOps: 10, UniqueMax: 1, IndexPct: 30, CasePct: 10, W: map[string]int{"save": 40, "update": 20, "del": 8, "sweep": 1, "reads": 1, "reopen": 2, "many": 6}},
	"C12": {Name: "C12", MaxOps: 20, UniqueMax: 1, IndexPct: 35, CasePct: 15, W: map[string]int{"sweep": 12, "getabsent": 6, "reads": 8, "flush": 3, "sleep": 3, "await": 2}},
	"C17": {Name: "C17", MaxOps: 20, UniqueMax: 1, IndexPct: 25, CasePct: 10, W: map[string]int{"create": 30, "save": 30, "update": 25, "del": 8, "sleep": 8, "flush": 4, "reads": 8, "sweep": 3, "reopen": 4, "await": 4}},
	"C19": {Name: "C19", MaxOps: 8, UniqueMax: 1, IndexPct: 30, CasePct: 10, W: map[string]int{"save": 40, "update": 15, "del": 5, "sweep": 4, "reads": 2, "many": 5}},
	"C13": {Name: "C13", MaxOps: 25, UniqueMax: 1, IndexPct: 60, CasePct: 10, W: map[string]int{"sweep": 20}},
	"C14": {Name: "C14", MaxOps: 25, UniqueMax: 1, IndexPct: 20, CasePct: 10, Scribble: true, W: map[string]int{"sweep": 8, "reads": 10, "resave": 10}},
	"C15": {Name: "C15", MaxOps: 20, UniqueMax: 1, IndexPct: 20, CasePct: 50, W: map[string]int{"many": 15, "bulk": 10}},
	"C16": {Name: "C16", MaxOps: 25, UniqueMin: 0, UniqueMax: 2, IndexPct: 30, CasePct: 75, W: map[string]int{"sweep": 14, "reopen": 8}},
	"C18": {Name: "C18", MaxOps: 20, UniqueMax: 1, IndexPct: 30, CasePct: 15, W: map[string]int{"sweep": 12, "reopen": 8}},
	"C20": {Name: "C20", MaxOps: 30, UniqueMax: 1, IndexPct: 60, CasePct: 10, W: map[string]int{"hold": 22, "collect": 22, "sweep": 2, "reads": 2, "repair": 8}},
}

// Tags owned by each property (first-divergence attribution).
var Owns = map[string][]string{
	"C01": {"read", "panic", "deadlock"},
	"C02": {"search"},
	"C03": {"unique"},
	"C04": {"reopen", "layout"},
	"C05": {"crash"},
	"C06": {"reject", "iofault", "batch"},
	"C07": {"batch"},
	"C08": {"linear", "race"},
	"C09": {"deadlock"},
	"C10": {"async", "read", "layout", "deadlock"},
	"C11": {"control", "repair"},
	"C12": {"diff"},
	"C13": {"order"},
	"C14": {"alias"},
	"C15": {"hooks", "case"},
	"C16": {"case"},
	"C17": {"guard", "read", "async", "layout", "deadlock", "reject"},
	"C18": {"layout"},
	"C19": {"args", "mangle"},
	"C20": {"snapshot"},
}

func OwnsTag(prop, tag string) bool {
	for _, t := range Owns[prop] {
		if t == tag {
			return true
		}
	}
	return false
}

// RunSeq runs the history machine for the given parameters.
func RunSeq(p Params) *Result {
	prof := Profiles[p.Prop]
	if prof == nil {
		prof = Profiles["C01"]
	}
	if p.NoScrib && prof.Scribble {
		c := *prof
		c.Scribble = false
		prof = &c
	}
	r := simrt.NewRand(simrt.Mix(p.Seed, 11))
	cfg := GenConfig(r.Fork(1), prof)
	pools := GenPools(r.Fork(2), 3)
	ops := GenOps(r.Fork(3), cfg, pools, prof)
	w := simrt.NewWorld(simrt.Mix(p.Seed, 12))
	w.Drift = []int{0, 0, 40}[r.Fork(13).Intn(3)] // in a third of the runs the flusher may wake inside a call of the client
	if p.Sched != nil {
		w.Sched = *p.Sched
	}
	skip := map[int]bool{}
	for _, i := range p.Skip {
		skip[i] = true
	}
	var kept []Op
	for i, o := range ops {
		if !skip[i] {
			kept = append(kept, o)
		}
	}
	s := NewSeq(w, cfg, prof, pools, kept)
	s.NoReopen = p.Extra["noreopen"] == 1
	s.Prop = p.Prop
	if p.Extra["fslog"] == 1 {
		w.FS.LogOn = true // debugging aid: the violation message ends with the last file mutations
	}
	cfg0 := *cfg
	s.Run()
	if s.V != nil && p.Extra["fslog"] == 1 {
		n := len(w.FS.Log)
		for i := n - 40; i < n; i++ {
			if i >= 0 {
				e := w.FS.Log[i]
				s.V.Msg += fmt.Sprintf("\n   fs#%d task=%d %s %s %s", e.Seq, e.Task, e.Kind, e.Path, e.Path2)
			}
		}
	}
	if s.V == nil && s.Foreign != nil {
		s.V = s.Foreign // nothing the property owns fired afterwards: the run reports its foreign divergence
	}
	res := &Result{Params: p, V: s.V, Digest: w.Digest(), Class: cfg0.Class(), Steps: w.Steps,
		SimMs: int64(w.Now() / 1e6), NOps: len(kept), Stats: s.Stats, Config: cfg0.String(), Decisions: len(w.Decisions), Known: s.KnownSample}
	if w.OverSteps && s.V == nil {
		res.Incon = "step budget exhausted"
	}
	res.Stalls = w.Stalls
	if w.Stalls > 0 && s.V == nil {
		res.Incon = "stall: the code under test waited on a primitive the simulator does not see and was released by another task (wall time took part in the schedule)"
	}
	for k, v := range w.Stats {
		res.Stats["w:"+k] = v
	}
	if s.V != nil || p.Extra["dump"] == 1 {
		for i, o := range ops {
			if !skip[i] {
				res.Ops = append(res.Ops, fmt.Sprintf("#%d %s", i, o.String()))
			}
		}
	}
	if len(kept) > 0 {
		res.Sample = kept[0].String()
		if len(res.Sample) > 300 {
			res.Sample = res.Sample[:300]
		}
	}
	return res
}

func SortedStatKeys(m map[string]int) []string {
	out := make([]string, 0, len(m))
	for k := range m {
		out = append(out, k)
	}
	sort.Strings(out)
	return out
}

// Run dispatches on the scenario and attributes the violation.
func Run(p Params) *Result {
	var r *Result
	switch p.Scenario {
	case "seq", "":
		r = RunSeq(p)
		// C14: a divergence that disappears when the harness stops scribbling
		// over the memory it passed in / got back is an aliasing violation
		if p.Prop == "C14" && r.V != nil && !p.NoScrib && r.V.Tag != "panic" && r.V.Tag != "deadlock" {
			q := p
			q.NoScrib = true
			if r2 := RunSeq(q); r2.V == nil {
				r.V.Sig = "alias:" + r.V.Sig
				r.V.Tag = "alias"
				r.V.Msg = "only when the caller mutates objects it passed in or got back: " + r.V.Msg
			}
		}
		// C04: a divergence (of any oracle) that disappears when the restarts
		// are taken out of the history is a restart violation
		if p.Prop == "C04" && r.V != nil && !OwnsTag("C04", r.V.Tag) && r.V.Tag != "panic" && p.Extra["noreopen"] == 0 {
			q := p
			q.Extra = map[string]int{"noreopen": 1}
			for k, v := range p.Extra {
				q.Extra[k] = v
			}
			q.Extra["noreopen"] = 1
			if r2 := RunSeq(q); r2.V == nil {
				r.V.Sig = "reopen:" + r.V.Sig
				r.V.Tag = "reopen"
				r.V.Msg = "only when the history contains a close/reopen or abandon: " + r.V.Msg
			}
		}
	case "crash":
		r = RunCrash(p)
	case "iofault":
		r = RunIOFault(p)
	case "conc":
		r = RunConc(p)
	case "repair":
		r = RunRepair(p)
	case "diff":
		r = RunDiff(p)
	case "guard":
		r = RunGuard(p)
	case "mangle":
		r = RunMangle(p)
	case "golden":
		r = RunGolden(p)
	default:
		return &Result{Params: p, Incon: "unknown scenario " + p.Scenario}
	}
	if r.V != nil {
		r.Owned = OwnsTag(p.Prop, r.V.Tag) || r.V.Tag == "panic"
	}
	if r.Shape == "" {
		r.Shape = shapeOf(r)
	}
	return r
}

// shapeOf is the coarse signature used to count distinct cases: the
// configuration class, the scenario-specific class (fault set, schedule
// generator, variant ...) and which operations / oracle outcomes occurred with
// which multiplicity (capped), i.e. two runs with the same shape exercised the
// same kinds of steps under the same kind of configuration.
func shapeOf(r *Result) string {
	var parts []string
	for _, k := range SortedStatKeys(r.Stats) {
		if strings.HasPrefix(k, "op:") || strings.HasPrefix(k, "probe:") || strings.HasPrefix(k, "fault:") {
			n := r.Stats[k]
			if n > 3 {
				n = 3
			}
			parts = append(parts, fmt.Sprintf("%s=%d", k, n))
		}
	}
	d := r.Decisions
	if d > 50 {
		d = 50 + d/50
	}
	return fmt.Sprintf("%s|%v|d%d", r.Class, parts, d)
}
