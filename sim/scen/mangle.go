package scen

import (
	"encoding/json"
	"fmt"
	"sort"
	"strings"

	"github.com/0xrawsec/sod"

	"verifsim/model"
	"verifsim/shapes"
	"verifsim/simrt"
)

// RunMangle is the C19 scenario: a valid closed database is damaged at byte
// and structure level, then every public call runs on it.
func RunMangle(p Params) *Result {
	prof := *Profiles["C19"]
	r := simrt.NewRand(simrt.Mix(p.Seed, 11))
	cfg := GenConfig(r.Fork(1), &prof)
	pools := GenPools(r.Fork(2), 3)
	ops := GenOps(r.Fork(3), cfg, pools, &prof)
	w := simrt.NewWorld(simrt.Mix(p.Seed, 12))
	skip := map[int]bool{}
	for _, i := range p.Skip {
		skip[i] = true
	}
	var kept []Op
	for i, o := range ops {
		if !skip[i] {
			kept = append(kept, o)
		}
	}
	s := NewSeq(w, cfg, &prof, pools, kept)
	mr := r.Fork(8)
	var muts []string
	started := false
	s.Hooks.Final = func(s *Seq) { started = true; muts = s.mangleScenario(mr) }
	cfg0 := *cfg
	s.Run()
	if w.OverSteps && s.V == nil && started {
		// a handful of calls on a small damaged collection cannot need millions of
		// scheduling points: a call is looping (every file-system call is one)
		s.V = &Violation{Tag: "mangle", Sig: "mangle:hang:step-budget", Msg: fmt.Sprintf("after the damage a call did not return within the step budget (%d scheduling points): it loops", w.Steps), Op: "mangle"}
	}
	res := &Result{Params: p, V: s.V, Digest: w.Digest(), Class: cfg0.Class() + " " + mutClass(muts), Steps: w.Steps,
		SimMs: int64(w.Now() / 1e6), NOps: len(kept), Stats: s.Stats, Config: cfg0.String(), Faults: map[string]int{}}
	for k, v := range s.Stats {
		if strings.HasPrefix(k, "fault:") {
			res.Faults[strings.TrimPrefix(k, "fault:")] = v
		}
	}
	if s.V != nil {
		for i, o := range ops {
			if !skip[i] {
				res.Ops = append(res.Ops, fmt.Sprintf("#%d %s", i, o.String()))
			}
		}
		for _, m := range muts {
			res.Ops = append(res.Ops, "damage: "+m)
		}
	}
	res.Sample = fmt.Sprintf("%d ops, then damage %v, then every public call", len(kept), muts)
	return res
}

func mutClass(m []string) string {
	var k []string
	for _, x := range m {
		if i := strings.Index(x, " "); i > 0 {
			x = x[:i]
		}
		k = append(k, x)
	}
	sort.Strings(k)
	return strings.Join(k, "+")
}

// jsonPaths lists every node of a decoded JSON value.
type jnode struct {
	parent interface{}
	key    string
	idx    int
	val    interface{}
}

func walkJSON(v interface{}, out *[]jnode) {
	switch t := v.(type) {
	case map[string]interface{}:
		keys := make([]string, 0, len(t))
		for k := range t {
			keys = append(keys, k)
		}
		sort.Strings(keys)
		for _, k := range keys {
			*out = append(*out, jnode{parent: t, key: k, val: t[k]})
			walkJSON(t[k], out)
		}
	case []interface{}:
		for i, x := range t {
			*out = append(*out, jnode{parent: t, idx: i, val: x})
			walkJSON(x, out)
		}
	}
}

// mutateJSON applies one structural mutation and returns its description.
func mutateJSON(r *simrt.Rand, doc interface{}) string {
	var nodes []jnode
	walkJSON(doc, &nodes)
	if len(nodes) == 0 {
		return "none"
	}
	n := nodes[r.Intn(len(nodes))]
	where := n.key
	if where == "" {
		where = fmt.Sprintf("[%d]", n.idx)
	}
	set := func(v interface{}) {
		if m, ok := n.parent.(map[string]interface{}); ok {
			m[n.key] = v
		} else if a, ok := n.parent.([]interface{}); ok {
			a[n.idx] = v
		}
	}
	switch r.Intn(10) {
	case 0:
		if m, ok := n.parent.(map[string]interface{}); ok {
			delete(m, n.key)
			return "json-drop-key " + where
		}
		set(nil)
		return "json-null " + where
	case 1:
		set(nil)
		return "json-null " + where
	case 2:
		set("str")
		return "json-to-string " + where
	case 3:
		set(json.Number("-1.5"))
		return "json-to-fraction " + where
	case 4:
		set([]interface{}{})
		return "json-to-empty-array " + where
	case 5:
		set(map[string]interface{}{})
		return "json-to-empty-object " + where
	case 6:
		set(true)
		return "json-to-bool " + where
	case 7:
		set(json.Number("1e400"))
		return "json-huge-number " + where
	case 8:
		if a, ok := n.val.([]interface{}); ok && len(a) > 0 {
			set(a[:len(a)-1])
			return "json-shorten-array " + where
		}
		set([]interface{}{json.Number("1")})
		return "json-to-short-array " + where
	default:
		if a, ok := n.val.([]interface{}); ok && len(a) > 0 {
			set(append(append([]interface{}{}, a...), a[0]))
			return "json-duplicate-element " + where
		}
		set(json.Number("-7"))
		return "json-negative " + where
	}
}

func (s *Seq) mangleScenario(r *simrt.Rand) []string {
	s.curOp = &Op{K: "mangle"}
	if err := s.db.Close(); err != nil {
		s.fail("mangle", "close-failed", "Close failed: %v", err)
	}
	fsys := s.W.FS
	dir := CollDir(s.Root, s.Cfg.Lower)
	var muts []string
	ents, _ := fsys.RawList(dir)
	var objFiles []string
	for _, e := range ents {
		if e.Name != "schema.json" && !e.Dir {
			objFiles = append(objFiles, e.Name)
		}
	}
	n := 1 + r.Intn(3)
	for i := 0; i < n; i++ {
		target := "schema.json"
		if len(objFiles) > 0 && r.Chance(1, 3) {
			target = objFiles[r.Intn(len(objFiles))]
		}
		path := dir + "/" + target
		data, ok := fsys.RawRead(path)
		kind := r.Intn(13)
		switch {
		case kind >= 10:
			// structure-aware damage of the index inside schema.json: the document stays
			// well-formed JSON of the right shape, the index becomes inconsistent
			raw, ok := fsys.RawRead(dir + "/schema.json")
			if !ok {
				continue
			}
			doc, err := parseSchemaDoc(raw)
			if err != nil {
				continue
			}
			desc := mutateIndex(r, doc)
			if desc == "" {
				continue
			}
			b, _ := json.Marshal(doc)
			fsys.RawWrite(dir+"/schema.json", b)
			muts = append(muts, "index-"+desc+" in schema.json")
			s.stat("fault:index-mutate")
		case kind == 9:
			// the whole file becomes another JSON value
			v := []string{"null", "[]", "{}", "\"\"", "0", "true", "[null]", "{\"index\":null}", "{\"fields\":null,\"index\":{\"fields\":null,\"object-ids\":null}}"}[r.Intn(9)]
			fsys.RawWrite(path, []byte(v))
			muts = append(muts, fmt.Sprintf("replace-whole-file %s with %s", target, v))
			s.stat("fault:replace-whole-file")
		case kind == 0 && ok && len(data) > 0:
			off := r.Intn(len(data))
			data[off] ^= 1 << uint(r.Intn(8))
			fsys.RawWrite(path, data)
			muts = append(muts, fmt.Sprintf("bitflip %s@%d", target, off))
			s.stat("fault:bitflip")
		case kind == 1 && ok && len(data) > 0:
			off := r.Intn(len(data))
			fsys.RawWrite(path, data[:off])
			muts = append(muts, fmt.Sprintf("truncate %s@%d/%d", target, off, len(data)))
			s.stat("fault:truncate")
		case kind == 2 && ok && len(data) > 0:
			off := r.Intn(len(data))
			l := 1 + r.Intn(16)
			for j := off; j < off+l && j < len(data); j++ {
				data[j] = 0
			}
			fsys.RawWrite(path, data)
			muts = append(muts, fmt.Sprintf("zero-range %s@%d+%d", target, off, l))
			s.stat("fault:zero-range")
		case kind == 3:
			// stray entries
			switch r.Intn(6) {
			case 0:
				fsys.RawWrite(dir+"/README", []byte("hello"))
				muts = append(muts, "stray file-without-dot")
			case 1:
				fsys.RawMkdir(dir + "/" + absentUUID(77))
				muts = append(muts, "stray uuid-shaped-directory")
			case 2:
				fsys.RawWrite(dir+"/"+absentUUID(78)+".bak", []byte("{}"))
				muts = append(muts, "stray uuid-file-foreign-extension")
			case 3:
				fsys.RawRemove(dir + "/schema.json")
				fsys.RawMkdir(dir + "/schema.json")
				muts = append(muts, "stray schema.json-is-a-directory")
			case 4:
				fsys.RawMkdir(dir + "/subdir.d")
				fsys.RawWrite(dir+"/subdir.d/x.json", []byte("{}"))
				muts = append(muts, "stray subdirectory")
			default:
				fsys.RawWrite(dir+"/"+absentUUID(79), []byte("{}"))
				muts = append(muts, "stray uuid-named-file-without-extension")
			}
			s.stat("fault:stray")
		default:
			// JSON structure mutation (object files only when not compressed)
			if target != "schema.json" && s.Cfg.Compress {
				target = "schema.json"
				path = dir + "/schema.json"
				data, ok = fsys.RawRead(path)
			}
			if !ok {
				continue
			}
			doc, err := parseAny(data)
			if err != nil {
				continue
			}
			desc := mutateJSON(r, doc)
			b, err := json.Marshal(doc)
			if err != nil {
				continue
			}
			fsys.RawWrite(path, b)
			muts = append(muts, desc+" in "+target)
			s.stat("fault:json-mutate")
		}
	}
	s.mangleCalls(r, muts)
	return muts
}

func parseAny(b []byte) (interface{}, error) {
	d, err := parseSchemaDoc(b)
	if err != nil {
		return nil, err
	}
	return map[string]interface{}(d), nil
}

// mangleCalls runs every public call; a panic of the package is caught by the
// run's guard and reported with the damage that led to it.
func (s *Seq) mangleCalls(r *simrt.Rand, muts []string) {
	db := sod.Open(s.Root)
	call := func(name string, f func()) {
		s.curOp = &Op{K: "mangle:" + name}
		f()
		s.stat("calls-on-damaged-db")
	}
	uuids := []string{absentUUID(1)}
	for _, l := range s.M.Lids() {
		uuids = append(uuids, s.M.UUID[l])
	}
	// if only object files were damaged and one of them cannot be decoded any more,
	// a call that has to read every object must say so
	schemaTouched := false
	for _, m := range muts {
		if strings.Contains(m, "schema.json") || strings.HasPrefix(m, "stray") {
			schemaTouched = true
		}
	}
	_, _, derr := DiskObjects(s.W.FS, CollDir(s.Root, s.Cfg.Lower), s.Cfg.Ext, s.Cfg.Compress)
	mustFail := !schemaTouched && derr != nil
	call("Schema", func() { db.Schema(rec0()) })
	call("Count", func() { db.Count(rec0()) })
	call("All", func() {
		objs, err := db.All(rec0())
		if mustFail && err == nil {
			s.fail("mangle", "unreadable-object-unreported:All", "an object file cannot be decoded (%v; damage %v) but All returned %d objects and no error", derr, muts, len(objs))
		}
	})
	if mustFail {
		for _, pth := range []string{"Lid", "Raw", "S", "I64", "F64"} {
			if s.Cfg.Cons[pth].Indexed() {
				continue
			}
			call("Search-unindexed", func() {
				sr := db.Search(rec0(), pth, "!=", GenProbe(r, s.Pools, pth).Go())
				objs, err := sr.Collect()
				if sr.Err() == nil && err == nil {
					s.fail("mangle", "unreadable-object-unreported:Search", "an object file cannot be decoded (%v; damage %v) but a full-scan search on %s returned %d objects and no error", derr, muts, pth, len(objs))
				}
			})
			s.stat("probe:unreadable-object-must-be-reported")
			break
		}
	}
	call("AssignAll", func() { var out []*shapes.Rec; db.AssignAll(rec0(), &out) })
	for _, u := range uuids {
		call("Get", func() { o := rec0(); o.Initialize(u); db.Get(o) })
		call("Exist", func() { o := rec0(); o.Initialize(u); db.Exist(o) })
	}
	paths := append([]string{"Lid", "S", "I64"}, s.M.ConsPaths()...)
	for _, pth := range paths {
		c := GenCmp(r, s.Pools, pth)
		call("Search", func() {
			sr := db.Search(rec0(), c.Path, c.Op, c.V.Go())
			objs, err := sr.Collect()
			if sr.Err() != nil && (len(objs) > 0 || err == nil) {
				s.fail("args", "errored-search-yields-objects", "on a damaged directory (%v): search %s has Err()=%v but Collect returned %d objects, err=%v", muts, c, sr.Err(), len(objs), err)
			}
			sr2 := db.Search(rec0(), c.Path, c.Op, c.V.Go()).And("Lid", ">=", 0).Or("Lid", "<", 0)
			sr2.Len()
			sr2.One()
		})
		if s.Cfg.Cons[pth].Indexed() {
			call("AssignIndex", func() { assignIndexLen(db, pth) })
		}
	}
	call("InsertOrUpdate", func() { db.InsertOrUpdate(GenRec(r, s.Pools, false)) })
	call("InsertOrUpdateMany", func() { db.InsertOrUpdateMany(GenRec(r, s.Pools, false), GenRec(r, s.Pools, false)) })
	call("Delete", func() { o := rec0(); o.Initialize(uuids[len(uuids)-1]); db.Delete(o) })
	call("Control", func() { db.Control() })
	call("Repair", func() { db.Repair(rec0()) })
	call("Create", func() { db.Create(rec0(), s.Cfg.Schema()) })
	call("Control", func() { db.Control() })
	call("Search.Delete", func() { db.Search(rec0(), "Lid", "<", -5).Delete() })
	call("DeleteAll", func() { db.DeleteAll(rec0()) })
	call("Commit", func() { db.Commit(rec0()) })
	call("Close", func() { db.Close() })
	// dropping the whole database, then using the handle again: errors, not panics
	db2 := sod.Open(s.Root)
	call("Drop", func() { db2.Drop() })
	call("Count-after-Drop", func() { db2.Count(rec0()) })
	call("Get-after-Drop", func() { o := rec0(); o.Initialize(uuids[0]); db2.Get(o) })
	call("Search-after-Drop", func() { db2.Search(rec0(), "Lid", ">", 0).Collect() })
	call("Insert-after-Drop", func() { db2.InsertOrUpdate(GenRec(r, s.Pools, false)) })
	call("Create-after-Drop", func() { db2.Create(rec0(), s.Cfg.Schema()) })
	call("Insert-after-Create", func() {
		if err := db2.InsertOrUpdate(GenRec(r, s.Pools, false)); err != nil && model.Valid(&shapes.Rec{}) {
			_ = err // may be invalid by its Raw value: only panics matter here
		}
	})
	call("Close-after-Drop", func() { db2.Close() })
	s.stat("probe:damaged-db-survived")
}

// mutateIndex damages the serialised index in a shape-preserving way.
func mutateIndex(r *simrt.Rand, doc schemaDoc) string {
	fis := doc.fieldIndexes()
	var names []string
	for n := range fis {
		names = append(names, n)
	}
	sort.Strings(names)
	if len(names) == 0 {
		return ""
	}
	name := names[r.Intn(len(names))]
	fi, _ := fis[name].(map[string]interface{})
	if fi == nil {
		return "" // an earlier mutation of this run already replaced the index of the field by something else
	}
	idx, _ := fi["index"].([]interface{})
	tuple := func(i int) []interface{} { t, _ := idx[i].([]interface{}); return t }
	switch r.Intn(12) {
	case 8: // the index claims to be the one of another field (values are fetched by that name)
		others := []string{"S", "I64", "T", "F64", "Lid", "P.S", "NoSuchField"}
		o := others[r.Intn(len(others))]
		if o == name {
			return ""
		}
		fi["name"] = o
		return "renamed-to-" + o + " " + name
	case 9: // an object id at the end of the range: the id counter would wrap
		oids := doc.objectIds()
		var ks []string
		for k := range oids {
			ks = append(ks, k)
		}
		sort.Strings(ks)
		if len(ks) == 0 {
			return ""
		}
		k := ks[r.Intn(len(ks))]
		v := oids[k]
		delete(oids, k)
		oids["18446744073709551615"] = v
		for _, n := range names {
			f, _ := fis[n].(map[string]interface{})
			ix, _ := f["index"].([]interface{})
			for _, t := range ix {
				if tu, ok := t.([]interface{}); ok && len(tu) == 2 && fmt.Sprint(tu[1]) == k {
					tu[1] = json.Number("18446744073709551615")
				}
			}
		}
		return "max-object-id"
	case 10: // the index does not enforce what its field calls for
		c, _ := fi["constraints"].(map[string]interface{})
		if c == nil {
			c = map[string]interface{}{}
			fi["constraints"] = c
		}
		if u, _ := c["unique"].(bool); u {
			delete(c, "unique")
		} else {
			c["unique"] = true
		}
		return "other-constraints " + name
	case 11: // object files outside the directory of the collection
		doc["extension"] = []string{"/../schema.json", "/x", "a/b.json", `\x`}[r.Intn(4)]
		return "extension-with-separator"
	case 0: // one entry takes the object id of another one (count and order intact)
		if len(idx) < 2 {
			return ""
		}
		i := r.Intn(len(idx))
		j := (i + 1 + r.Intn(len(idx)-1)) % len(idx)
		if tuple(i) == nil || tuple(j) == nil || len(tuple(i)) < 2 || len(tuple(j)) < 2 {
			return ""
		}
		tuple(i)[1] = tuple(j)[1]
		return "duplicate-id " + name
	case 1: // an id that is in no object-ids
		if len(idx) == 0 || tuple(0) == nil || len(tuple(0)) < 2 {
			return ""
		}
		tuple(r.Intn(len(idx)))[1] = json.Number("987654")
		return "unknown-id " + name
	case 2: // two values exchanged: order broken
		if len(idx) < 2 {
			return ""
		}
		i, j := 0, len(idx)-1
		if tuple(i) == nil || tuple(j) == nil || len(tuple(i)) < 1 || len(tuple(j)) < 1 {
			return ""
		}
		tuple(i)[0], tuple(j)[0] = tuple(j)[0], tuple(i)[0]
		return "swap-values " + name
	case 3: // another cast
		casts := []string{"int64", "uint64", "float64", "string", "bool", ""}
		fi["cast"] = casts[r.Intn(len(casts))]
		return "other-cast " + name
	case 4: // the index of a field disappears
		delete(fis, name)
		return "drop-field-index " + name
	case 5: // the index of a field the struct does not have
		fis["NoSuchField"] = fis[name]
		return "index-on-unknown-field"
	case 6: // an object-ids entry renamed to a non-numeric / negative key
		oids := doc.objectIds()
		var ks []string
		for k := range oids {
			ks = append(ks, k)
		}
		sort.Strings(ks)
		if len(ks) == 0 {
			return ""
		}
		k := ks[r.Intn(len(ks))]
		v := oids[k]
		delete(oids, k)
		oids[[]string{"-1", "x", "1.5", "18446744073709551616"}[r.Intn(4)]] = v
		return "bad-object-id-key"
	default: // two objects share one uuid
		oids := doc.objectIds()
		var ks []string
		for k := range oids {
			ks = append(ks, k)
		}
		sort.Strings(ks)
		if len(ks) < 2 {
			return ""
		}
		oids[ks[0]] = oids[ks[1]]
		return "shared-uuid"
	}
}
