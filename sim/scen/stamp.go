package scen

import (
	"fmt"
	"math"
	"sort"
	"time"

	"github.com/0xrawsec/sod"

	"verifsim/shapes"
)

// stampProbe: comparisons, order and AssignIndex on a time field whose values lie
// beyond the range of UnixNano (years 1678..2262), the zero time.Time first of
// all. Self-contained: its own collection, emptied and refilled every time.
func (s *Seq) stampProbe(ctx string) {
	st := func() *shapes.Stamp { return &shapes.Stamp{} }
	sc := sod.DefaultSchema
	sc.Extension = ".json"
	if err := s.db.Create(st(), sc); err != nil {
		s.fail("search", "stamp-create-failed", "%s: Create of the time collection failed: %v", ctx, err)
	}
	if err := s.db.DeleteAll(st()); err != nil {
		s.fail("search", "stamp-deleteall-failed", "%s: DeleteAll of the time collection failed: %v", ctx, err)
	}
	r := s.prng.Fork(77)
	y := func(year int) time.Time { return time.Date(year, 3, 4, 5, 6, 7, 8, time.UTC) }
	// one or two times before the range, some inside, one or two after it
	ts := []time.Time{{}, y(1950 + r.Intn(100)), y(1700), y(9999)}
	// just beyond the two ends of the range (same calendar year as the end itself)
	lo, hi := time.Unix(0, math.MinInt64).UTC(), time.Unix(0, math.MaxInt64).UTC()
	switch r.Intn(3) {
	case 1:
		ts = append(ts, hi.Add(time.Duration(1+r.Intn(200))*24*time.Hour))
	case 2:
		ts = append(ts, lo.Add(-time.Duration(1+r.Intn(200))*24*time.Hour))
	}
	twoLow := r.Bool()
	if twoLow {
		ts = append(ts, y(1000+r.Intn(600)))
	}
	if r.Bool() {
		ts = append(ts, y(1970))
	}
	for i, t := range ts {
		if err := s.db.InsertOrUpdate(&shapes.Stamp{At: t, N: i}); err != nil {
			s.fail("search", "stamp-insert-failed", "%s: insert of a time %v failed: %v", ctx, t, err)
		}
	}
	count := func(op string, v time.Time) int {
		sr := s.db.Search(st(), "At", op, v)
		if sr.Err() != nil {
			s.fail("search", "stamp-search-error", "%s: At %s %v fails: %v", ctx, op, v, sr.Err())
		}
		return sr.Len()
	}
	want := func(op string, v time.Time) int {
		n := 0
		for _, t := range ts {
			switch op {
			case "<":
				if t.Before(v) {
					n++
				}
			case ">":
				if t.After(v) {
					n++
				}
			case "=":
				if t.Equal(v) {
					n++
				}
			case ">=":
				if !t.Before(v) {
					n++
				}
			}
		}
		return n
	}
	// probes inside the range: times beyond it must fall on the right side
	for _, pr := range []struct {
		op string
		v  time.Time
	}{{"<", y(1690)}, {">", y(1690)}, {"<", y(2100)}, {">", y(2100)}, {">=", y(1700)}, {"=", y(1700)}} {
		if got, exp := count(pr.op, pr.v), want(pr.op, pr.v); got != exp {
			s.fail("search", "time-beyond-unixnano-range:wrong-side", "%s: with the times %v stored, At %s %v matches %d objects, expected %d", ctx, ts, pr.op, pr.v, got, exp)
		}
	}
	// order: non-increasing
	objs, err := s.db.Search(st(), "At", ">=", time.Time{}).Collect()
	if err != nil || len(objs) != len(ts) {
		s.fail("search", "time-beyond-unixnano-range:wrong-side", "%s: At >= zero time returns %d of %d objects (%v)", ctx, len(objs), len(ts), err)
	}
	for i := 1; i < len(objs); i++ {
		a, b := objs[i-1].(*shapes.Stamp).At, objs[i].(*shapes.Stamp).At
		inRange := func(t time.Time) bool { return !t.Before(lo) && !t.After(hi) }
		if a.Before(b) && (inRange(a) || inRange(b)) {
			s.fail("order", "time-beyond-unixnano-range:order", "%s: Collect on the time index returns %v before %v", ctx, a, b)
		}
	}
	s.stat("probe:times-beyond-unixnano-range")
	// what the int64 key cannot do (listed finding): tell two times on the same side of
	// the range from each other, and give them back through AssignIndex
	s.tolerateKnown(func() {
		nLow := 0
		for _, t := range ts {
			if t.Before(lo) {
				nLow++
			}
		}
		if nLow >= 2 {
			if got := count("=", time.Time{}); got != 1 {
				s.fail("search", "time-beyond-unixnano-range:indistinguishable:equal", "%s: with the times %v stored, At = zero time matches %d objects, expected 1", ctx, ts, got)
			}
		}
		var idx []time.Time
		if err := s.db.AssignIndex(st(), "At", &idx); err != nil {
			s.fail("order", "stamp-assignindex-failed", "%s: AssignIndex on the time collection failed: %v", ctx, err)
		}
		var exp []time.Time
		exp = append(exp, ts...)
		sort.Slice(exp, func(i, j int) bool { return exp[i].After(exp[j]) })
		for i := range exp {
			if i >= len(idx) || !idx[i].Equal(exp[i]) {
				s.fail("order", "time-beyond-unixnano-range:indistinguishable:assignindex", "%s: AssignIndex returns %v for the stored times %v", ctx, fmt.Sprint(idx), fmt.Sprint(exp))
			}
		}
	})
}
