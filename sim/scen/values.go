package scen

import (
	"math"
	"time"

	"verifsim/shapes"
	"verifsim/simrt"
)

// Val is a JSON-serialisable probe value that remembers its Go type.
type Val struct {
	T string  `json:"t"`
	I int64   `json:"i,omitempty"`
	U uint64  `json:"u,omitempty"`
	F float64 `json:"f,omitempty"`
	S string  `json:"s,omitempty"`
}

// Go returns the Go value to pass to Search.
func (v Val) Go() interface{} {
	switch v.T {
	case "int":
		return int(v.I)
	case "int8":
		return int8(v.I)
	case "int16":
		return int16(v.I)
	case "int32":
		return int32(v.I)
	case "int64":
		return v.I
	case "uint":
		return uint(v.U)
	case "uint8":
		return uint8(v.U)
	case "uint16":
		return uint16(v.U)
	case "uint32":
		return uint32(v.U)
	case "uint64":
		return v.U
	case "float32":
		return float32(v.F)
	case "float64":
		return v.F
	case "string":
		return shapes.RawBytes(v.S)
	case "time":
		return time.Unix(0, v.I).UTC()
	case "nil":
		return nil
	case "bool":
		return v.I != 0
	case "bytes":
		return []byte(v.S)
	}
	return nil
}

var (
	i8s  = []int64{0, 1, -1, 2, 5, math.MinInt8, math.MaxInt8}
	i16s = []int64{0, 1, -1, 300, -300, math.MinInt16, math.MaxInt16}
	i32s = []int64{0, 1, -1, 70000, -70000, math.MinInt32, math.MaxInt32}
	i64s = []int64{0, 1, -1, 1<<53 - 1, 1 << 53, 1<<53 + 1, -(1<<53 + 1), math.MinInt64, math.MinInt64 + 1, math.MaxInt64, math.MaxInt64 - 1, 1234567890123456789}
	u8s  = []uint64{0, 1, 2, 200, math.MaxUint8}
	u16s = []uint64{0, 1, 2, 40000, math.MaxUint16}
	u32s = []uint64{0, 1, 2, 3000000000, math.MaxUint32}
	u64s = []uint64{0, 1, 2, 1<<53 - 1, 1 << 53, 1<<53 + 1, 1 << 63, 1<<63 + 1, math.MaxUint64, math.MaxUint64 - 1}
	f32s = []float64{0, 1, -1, float64(float32(0.1)), float64(float32(-2.5)), math.MaxFloat32, -math.MaxFloat32, math.SmallestNonzeroFloat32}
	f64s = []float64{0, math.Copysign(0, -1), 1, -1, 0.1, 0.5, -2.5, 3.141592653589793, 1 << 53, 1<<53 + 2, 5e-324, 1e-320, math.MaxFloat64, -math.MaxFloat64, 1e21, 123456789.123456789}
	strs = []string{"", "a", "A", "b", "B", "ab", "Ab", "aB", "AB", "abc", "ABC", "Abc", "z", "Z", "a b", "0", "10", "9",
		"ß", "ẞ", "İ", "ı", "i", "I", "ǅ", "ǆ", "Ǆ", "Σ", "σ", "ς", "é", "É", "é", "k", "K", "K", "x.y", "a<b>&c", "日本", "q\"uote", "back\\slash",
		// U+E0xx stands for the raw byte 0xxx (shapes.RawBytes): strings that are not valid UTF-8
		"caf\uE0E9", "\uE0FF\uE0FE", "a\uE0C3"}
	times = []int64{0, 1, -1, 1000000000, 1700000000123456789, 1700000000123456790, 1700000000123456788, 1700000000000000000,
		-1000000000000000000, math.MaxInt64, math.MaxInt64 - 1, math.MinInt64 + 1, 1 << 53, 1<<53 + 1}
	raws = []string{"r1", "r2", " r1 ", "bad", "bad2", " bad3", "R1", "ok", "BAD"}
)

// Pools are the per-run sub-pools of field values: small and collision-rich.
type Pools struct {
	I map[string][]int64
	U map[string][]uint64
	F map[string][]float64
	S map[string][]string
}

func sub64(r *simrt.Rand, src []int64, n int) []int64 {
	p := r.Perm(len(src))
	if n > len(src) {
		n = len(src)
	}
	out := make([]int64, n)
	for i := range out {
		out[i] = src[p[i]]
	}
	return out
}
func subU(r *simrt.Rand, src []uint64, n int) []uint64 {
	p := r.Perm(len(src))
	if n > len(src) {
		n = len(src)
	}
	out := make([]uint64, n)
	for i := range out {
		out[i] = src[p[i]]
	}
	return out
}
func subF(r *simrt.Rand, src []float64, n int) []float64 {
	p := r.Perm(len(src))
	if n > len(src) {
		n = len(src)
	}
	out := make([]float64, n)
	for i := range out {
		out[i] = src[p[i]]
	}
	return out
}
func subS(r *simrt.Rand, src []string, n int) []string {
	p := r.Perm(len(src))
	if n > len(src) {
		n = len(src)
	}
	out := make([]string, n)
	for i := range out {
		out[i] = src[p[i]]
	}
	return out
}

var intSrc = map[string][]int64{"I8": i8s, "I16": i16s, "I32": i32s, "I64": i64s, "I": i64s, "In.N": i32s, "P.N": i32s,
	"T": times, "In.T": times, "P.T": times}
var uintSrc = map[string][]uint64{"U8": u8s, "U16": u16s, "U32": u32s, "U64": u64s, "U": u64s, "Emb.E": u16s}
var floatSrc = map[string][]float64{"F32": f32s, "F64": f64s}
var strSrc = map[string][]string{"S": strs, "Up": strs, "Lo": strs, "In.S": strs, "P.S": strs, "Emb.ES": strs, "Raw": raws}

func GenPools(r *simrt.Rand, size int) *Pools {
	p := &Pools{I: map[string][]int64{}, U: map[string][]uint64{}, F: map[string][]float64{}, S: map[string][]string{}}
	for _, path := range shapes.RecPaths {
		n := 2 + r.Intn(size)
		if s, ok := intSrc[path]; ok {
			p.I[path] = sub64(r, s, n)
		}
		if s, ok := uintSrc[path]; ok {
			p.U[path] = subU(r, s, n)
		}
		if s, ok := floatSrc[path]; ok {
			p.F[path] = subF(r, s, n)
		}
		if s, ok := strSrc[path]; ok {
			p.S[path] = subS(r, s, n)
			if path != "Raw" && r.Chance(1, 5) {
				// strings that are not valid UTF-8 (one or two adjacent bad bytes) in every fifth pool
				if r.Bool() {
					// two values that differ only in the number of adjacent bad bytes
					p.S[path] = append(p.S[path], "k\uE0FF\uE0FE", "k\uE0FF")
				} else {
					p.S[path] = append(p.S[path], []string{"caf\uE0E9", "\uE0FF\uE0FE", "a\uE0C3"}[r.Intn(3)])
				}
			}
		}
	}
	return p
}

func pickI(r *simrt.Rand, s []int64) int64     { return s[r.Intn(len(s))] }
func pickU(r *simrt.Rand, s []uint64) uint64   { return s[r.Intn(len(s))] }
func pickF(r *simrt.Rand, s []float64) float64 { return s[r.Intn(len(s))] }
func pickS(r *simrt.Rand, s []string) string   { return s[r.Intn(len(s))] }

func tm(n int64) time.Time { return time.Unix(0, n).UTC() }

// GenRec draws a record from the pools. bad controls the validity class.
func GenRec(r *simrt.Rand, p *Pools, payload bool) *shapes.Rec {
	x := &shapes.Rec{}
	x.I8 = int8(pickI(r, p.I["I8"]))
	x.I16 = int16(pickI(r, p.I["I16"]))
	x.I32 = int32(pickI(r, p.I["I32"]))
	x.I64 = pickI(r, p.I["I64"])
	x.I = int(pickI(r, p.I["I"]))
	x.U8 = uint8(pickU(r, p.U["U8"]))
	x.U16 = uint16(pickU(r, p.U["U16"]))
	x.U32 = uint32(pickU(r, p.U["U32"]))
	x.U64 = pickU(r, p.U["U64"])
	x.U = uint(pickU(r, p.U["U"]))
	x.F32 = float32(pickF(r, p.F["F32"]))
	x.F64 = pickF(r, p.F["F64"])
	x.S = pickS(r, p.S["S"])
	x.Up = pickS(r, p.S["Up"])
	x.Lo = pickS(r, p.S["Lo"])
	x.T = tm(pickI(r, p.I["T"]))
	x.In = shapes.Inner{N: int32(pickI(r, p.I["In.N"])), S: pickS(r, p.S["In.S"]), T: tm(pickI(r, p.I["In.T"]))}
	if r.Chance(2, 3) {
		x.P = &shapes.Inner{N: int32(pickI(r, p.I["P.N"])), S: pickS(r, p.S["P.S"]), T: tm(pickI(r, p.I["P.T"]))}
	}
	x.E = uint16(pickU(r, p.U["Emb.E"]))
	x.ES = pickS(r, p.S["Emb.ES"])
	x.Raw = pickS(r, p.S["Raw"])
	if payload {
		GenPayload(r, x)
	}
	return x
}

// GenPayload fills the container fields (nil / empty / non-empty, pointer
// chains, slice of pointers inside a map, interface holding containers).
func GenPayload(r *simrt.Rand, x *shapes.Rec) {
	switch r.Intn(3) {
	case 1:
		x.Tags = []string{}
	case 2:
		x.Tags = []string{"t1", "t2", "t3"}[:1+r.Intn(3)]
	}
	switch r.Intn(3) {
	case 1:
		x.M = map[string]int{}
	case 2:
		x.M = map[string]int{"a": 1, "b": r.Intn(10)}
	}
	if r.Bool() {
		n := r.Intn(100)
		x.PI = &n
	}
	switch r.Intn(3) {
	case 1:
		x.L = []*shapes.Inner{}
	case 2:
		x.L = []*shapes.Inner{{N: 1, S: "l1", T: tm(5)}, nil, {N: int32(r.Intn(9)), S: "l3", T: tm(6)}}
	}
	switch r.Intn(3) {
	case 1:
		x.MI = map[string][]*shapes.Inner{}
	case 2:
		x.MI = map[string][]*shapes.Inner{"k": {{N: 7, S: "m1", T: tm(7)}, {N: 8, S: "m2", T: tm(8)}}, "e": {}, "n": nil}
	}
	mkLine := func(tag string) shapes.Line {
		l := shapes.Line{Name: tag}
		if r.Bool() {
			l.Tags = []string{tag + "1", tag + "2"}
		}
		if r.Bool() {
			l.Attrs = map[string]int{tag: r.Intn(9)}
		}
		if r.Bool() {
			q := r.Intn(50)
			l.Qty = &q
		}
		if r.Bool() {
			l.Sub = &shapes.Inner{N: int32(r.Intn(5)), S: tag, T: tm(9)}
		}
		return l
	}
	switch r.Intn(3) {
	case 1:
		x.LS = []shapes.Line{}
	case 2:
		x.LS = []shapes.Line{mkLine("a"), mkLine("b")}
	}
	if r.Bool() {
		x.AR = [2]shapes.Line{mkLine("x"), mkLine("y")}
	}
	if r.Bool() {
		x.MS = map[string]shapes.Line{"k1": mkLine("m"), "k2": mkLine("n")}
	}
	switch r.Intn(3) {
	case 1:
		x.AP = [2]*shapes.Inner{{N: 1, S: "p0", T: tm(3)}, nil}
	case 2:
		x.AP = [2]*shapes.Inner{{N: 2, S: "p0", T: tm(4)}, {N: 3, S: "p1", T: tm(5)}}
	}
	switch r.Intn(6) {
	case 5:
		// becomes a shapes.AnyBox value (a structure held by the interface) when passed to the database
		x.Any = map[string]interface{}{"$box": "b", "N": float64(r.Intn(3)), "S": "q", "L": []interface{}{float64(1), float64(2)}}
	case 1:
		x.Any = "str"
	case 2:
		x.Any = float64(r.Intn(5)) + 0.5
	case 3:
		x.Any = []interface{}{"a", float64(1), map[string]interface{}{"k": "v"}}
	case 4:
		x.Any = map[string]interface{}{"list": []interface{}{float64(1), float64(2)}, "s": "x", "nested": map[string]interface{}{"d": float64(3)}}
	}
}
