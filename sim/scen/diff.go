package scen

import (
	"fmt"
	"sort"

	"verifsim/model"
	"verifsim/simrt"
)

// RunDiff is the C12 scenario: one operation tape is executed in two fresh
// worlds that differ in exactly one configuration dimension; both runs are
// checked against the same model and their "loose" outcomes (the ones the
// model leaves open) must be equal.
func RunDiff(p Params) *Result {
	prof := *Profiles["C12"]
	r := simrt.NewRand(simrt.Mix(p.Seed, 11))
	cfgA := GenConfig(r.Fork(1), &prof)
	pools := GenPools(r.Fork(2), 3)
	dr := r.Fork(7)
	dims := []string{"cache", "compress", "async", "lowercase-names", "extension", "indexing"}
	dim := dims[dr.Intn(len(dims))]
	if v, ok := p.Extra["dim"]; ok {
		dim = dims[v%len(dims)]
	}
	b := *cfgA
	b.Cons = map[string]model.Cons{}
	for k, v := range cfgA.Cons {
		b.Cons[k] = v
	}
	cfgB := &b
	switch dim {
	case "cache":
		cfgB.Cache = !cfgA.Cache
	case "compress":
		cfgB.Compress = !cfgA.Compress
	case "async":
		cfgB.Async = !cfgA.Async
		if cfgB.Async {
			cfgB.Threshold = []int{1, 2, 3, 1000}[dr.Intn(4)]
			cfgB.TimeoutMs = []int64{100, 250, 1000, 60000, 3600000}[dr.Intn(5)]
		}
	case "lowercase-names":
		cfgB.Lower = !cfgA.Lower
	case "extension":
		for cfgB.Ext == cfgA.Ext {
			cfgB.Ext = exts[dr.Intn(len(exts))]
		}
	case "indexing":
		// what is indexed changes, constraints that carry meaning stay
		for _, path := range sortedKeys(cfgA.Cons) {
			c := cfgA.Cons[path]
			if c.Index && !c.Unique {
				c.Index = false
				cfgB.Cons[path] = c
			}
		}
		for i := 0; i < 3; i++ {
			path := []string{"I8", "I64", "U64", "F64", "S", "T", "In.N", "P.S", "Emb.ES", "Up", "Lo"}[dr.Intn(11)]
			c := cfgB.Cons[path]
			if !c.Unique && !cfgA.Cons[path].Index {
				c.Index = true
				cfgB.Cons[path] = c
			}
		}
	}
	// one tape for both
	genCfg := *cfgA
	if dim == "async" {
		genCfg.Async = true // include flush / sleep / await calls in the tape
	}
	ops := GenOps(r.Fork(3), &genCfg, pools, &prof)
	skip := map[int]bool{}
	for _, i := range p.Skip {
		skip[i] = true
	}
	var kept []Op
	for i, o := range ops {
		if !skip[i] {
			kept = append(kept, o)
		}
	}
	run := func(cfg *Config) (*Seq, *simrt.World) {
		w := simrt.NewWorld(simrt.Mix(p.Seed, 12))
		c := *cfg
		s := NewSeq(w, &c, &prof, pools, kept)
		s.Loose = map[string]string{}
		s.Run()
		return s, w
	}
	sa, wa := run(cfgA)
	sb, wb := run(cfgB)
	res := &Result{Params: p, Digest: wa.Digest() ^ (wb.Digest() * 31), Class: cfgA.Class() + " vs " + dim, Steps: wa.Steps + wb.Steps,
		SimMs: int64((wa.Now() + wb.Now()) / 1e6), NOps: len(kept), Stats: sa.Stats, Config: cfgA.String() + "  VERSUS  " + dim + " flipped: " + cfgB.String()}
	for k, v := range sb.Stats {
		res.Stats[k] += v
	}
	res.Stats["pair:"+dim]++
	switch {
	case sa.V == nil && sb.V == nil:
		var keys []string
		for k := range sa.Loose {
			keys = append(keys, k)
		}
		for k := range sb.Loose {
			if _, ok := sa.Loose[k]; !ok {
				keys = append(keys, k)
			}
		}
		sort.Strings(keys)
		for _, k := range keys {
			va, oka := sa.Loose[k]
			vb, okb := sb.Loose[k]
			if oka && okb && va != vb {
				res.V = &Violation{Tag: "diff", Sig: "diff:" + dim + ":loose-outcome:" + looseClass(k), Msg: fmt.Sprintf("the same call gives %q under A and %q under B (only %s differs): %s", va, vb, dim, k)}
				break
			}
		}
		res.Stats["loose-outcomes-compared"] += len(keys)
	case sa.V != nil && sb.V != nil && sa.V.Sig == sb.V.Sig:
		res.V = sa.V // not configuration dependent: somebody else's violation
	case sa.V != nil && sb.V == nil:
		res.V = &Violation{Tag: "diff", Sig: "diff:" + dim + ":" + sa.V.Sig, Step: sa.V.Step, Op: sa.V.Op,
			Msg: fmt.Sprintf("the tape diverges from the model only under configuration A (B differs in %s only and passes): %s", dim, sa.V.Msg)}
	case sb.V != nil && sa.V == nil:
		res.V = &Violation{Tag: "diff", Sig: "diff:" + dim + ":" + sb.V.Sig, Step: sb.V.Step, Op: sb.V.Op,
			Msg: fmt.Sprintf("the tape diverges from the model only under configuration B (%s flipped; A passes): %s", dim, sb.V.Msg)}
	default:
		res.V = &Violation{Tag: "diff", Sig: "diff:" + dim + ":" + sa.V.Sig + "|" + sb.V.Sig, Step: sa.V.Step, Op: sa.V.Op,
			Msg: fmt.Sprintf("the tape fails differently under the two configurations (%s differs): A: %s\nB: %s", dim, sa.V.Msg, sb.V.Msg)}
	}
	if res.V != nil {
		for i, o := range ops {
			if !skip[i] {
				res.Ops = append(res.Ops, fmt.Sprintf("#%d %s", i, o.String()))
			}
		}
	}
	if len(kept) > 0 {
		res.Sample = fmt.Sprintf("dimension %s; %d ops; first: %.150s", dim, len(kept), kept[0].String())
	}
	return res
}

func looseClass(k string) string {
	for i := 0; i < len(k); i++ {
		if k[i] == '|' {
			return k[:i]
		}
	}
	return "call"
}
