package scen

import (
	"bytes"
	"compress/gzip"
	"encoding/json"
	"fmt"
	"io"
	"regexp"
	"sort"
	"strings"

	"verifsim/model"
	"verifsim/shapes"
	"verifsim/simrt"
)

var uuidRe = regexp.MustCompile(`^[0-9a-fA-F]{8}-[0-9a-fA-F]{4}-[0-9a-fA-F]{4}-[0-9a-fA-F]{4}-[0-9a-fA-F]{12}$`)

// snake is the harness's own reading of "snake case of the type name".
func snake(camel string) string {
	var b strings.Builder
	prevLower := false
	for i := 0; i < len(camel); i++ {
		c := camel[i]
		nextLower := i+1 < len(camel) && camel[i+1] >= 'a' && camel[i+1] <= 'z'
		isUp := c >= 'A' && c <= 'Z'
		isDigit := c >= '0' && c <= '9'
		if isUp || isDigit {
			if b.Len() > 0 && (nextLower || prevLower) {
				b.WriteByte('_')
			}
			if isUp {
				b.WriteByte(c - 'A' + 'a')
			} else {
				b.WriteByte(c)
			}
			prevLower = false
		} else {
			b.WriteByte(c)
			prevLower = true
		}
	}
	return b.String()
}

// CollDir is the expected directory of the Rec collection.
func CollDir(root string, lower bool) string {
	name := "shapes.Rec"
	if lower {
		name = snake(name)
	}
	return root + "/" + name
}

// DiskSchema is the harness's own decoder of the pinned schema.json format.
type DiskSchema struct {
	Fields map[string]struct {
		Path        string          `json:"path"`
		Type        string          `json:"type"`
		Constraints map[string]bool `json:"constraints"`
	} `json:"fields"`
	Extension string `json:"extension"`
	Compress  bool   `json:"compress"`
	Cache     bool   `json:"cache"`
	Async     *struct {
		Enable    bool   `json:"enable"`
		Threshold int    `json:"threshold"`
		Timeout   string `json:"timeout"`
	} `json:"async-writes"`
	Index *struct {
		Fields map[string]struct {
			Name        string              `json:"name"`
			Cast        string              `json:"cast"`
			Constraints map[string]bool     `json:"constraints"`
			Index       [][]json.RawMessage `json:"index"`
		} `json:"fields"`
		ObjectIds map[string]string `json:"object-ids"`
	} `json:"index"`
}

// DecodeSchema parses schema.json strictly.
func DecodeSchema(b []byte) (*DiskSchema, error) {
	var top map[string]json.RawMessage
	if err := json.Unmarshal(b, &top); err != nil {
		return nil, err
	}
	for _, k := range []string{"fields", "extension", "compress", "cache", "index"} {
		if _, ok := top[k]; !ok {
			return nil, fmt.Errorf("schema.json lacks key %q", k)
		}
	}
	d := &DiskSchema{}
	if err := json.Unmarshal(b, d); err != nil {
		return nil, err
	}
	if d.Index == nil {
		return nil, fmt.Errorf("schema.json has a null index")
	}
	var idx map[string]json.RawMessage
	json.Unmarshal(top["index"], &idx)
	for _, k := range []string{"fields", "object-ids"} {
		if _, ok := idx[k]; !ok {
			return nil, fmt.Errorf("schema.json index lacks key %q", k)
		}
	}
	return d, nil
}

func gunzip(b []byte) ([]byte, error) {
	zr, err := gzip.NewReader(bytes.NewReader(b))
	if err != nil {
		return nil, err
	}
	return io.ReadAll(zr)
}

// DiskRaw lists the object files of a collection directory with code that
// shares nothing with the package: uuid -> (decompressed) content.
func DiskRaw(fs *simrt.FS, dir, ext string, compress bool) (map[string][]byte, []string, error) {
	ents, ok := fs.RawList(dir)
	if !ok {
		return nil, nil, fmt.Errorf("collection directory %s does not exist", dir)
	}
	out := map[string][]byte{}
	var stray []string
	suffix := ext
	if compress {
		suffix += ".gz"
	}
	for _, e := range ents {
		if e.Name == "schema.json" && !e.Dir {
			continue
		}
		if e.Dir || !strings.HasSuffix(e.Name, suffix) || !uuidRe.MatchString(strings.TrimSuffix(e.Name, suffix)) {
			stray = append(stray, e.Name)
			continue
		}
		u := strings.TrimSuffix(e.Name, suffix)
		data, _ := fs.RawRead(dir + "/" + e.Name)
		if compress {
			if len(data) < 2 || data[0] != 0x1f || data[1] != 0x8b {
				return nil, nil, fmt.Errorf("%s: no gzip framing", e.Name)
			}
			var err error
			if data, err = gunzip(data); err != nil {
				return nil, nil, fmt.Errorf("%s: %v", e.Name, err)
			}
		}
		out[u] = data
	}
	return out, stray, nil
}

// DiskObjects decodes the object files of the Rec collection. It returns uuid -> record.
func DiskObjects(fs *simrt.FS, dir, ext string, compress bool) (map[string]*shapes.Rec, []string, error) {
	raw, stray, err := DiskRaw(fs, dir, ext, compress)
	if err != nil {
		return nil, nil, err
	}
	out := map[string]*shapes.Rec{}
	for u, data := range raw {
		r := &shapes.Rec{}
		dec := json.NewDecoder(bytes.NewReader(data))
		if err := dec.Decode(r); err != nil {
			return nil, nil, fmt.Errorf("%s: not plain JSON: %v", u, err)
		}
		r.Initialize(u)
		out[u] = r
	}
	return out, stray, nil
}

// checkLayout is the C18 invariant at a quiescent point.
func (s *Seq) checkLayout(ctx string) { s.softOracle("layout", func() { s.checkLayout0(ctx) }) }

func (s *Seq) checkLayout0(ctx string) {
	if !s.quiescent {
		return
	}
	if s.Cfg.Async || s.smallAsync {
		// a flusher commits periodically: let a commit that is in flight at this instant finish
		s.W.Settle()
	}
	dir := CollDir(s.Root, s.Cfg.Lower)
	objs, stray, err := DiskObjects(s.W.FS, dir, s.Cfg.Ext, s.Cfg.Compress)
	if err != nil {
		s.fail("layout", "undecodable", "%s: %v", ctx, err)
	}
	if len(stray) > 0 {
		s.fail("layout", "unexpected-entry", "%s: unexpected directory entries %v in %s", ctx, stray, dir)
	}
	want := map[string]int{}
	for _, l := range s.M.Lids() {
		want[s.M.UUID[l]] = l
	}
	var us []string
	for u := range objs {
		us = append(us, u)
	}
	sort.Strings(us)
	for _, u := range us {
		l, ok := want[u]
		if !ok {
			s.fail("layout", "file-of-absent-object", "%s: file for uuid %s exists but no such object is stored (lid in file %d)", ctx, u, objs[u].Lid)
		}
		if g, e := model.JSON(objs[u]), model.JSON(s.M.Objs[l]); g != e {
			s.fail("layout", "file-content", "%s: file of lid=%d holds %s, expected %s", ctx, l, g, e)
		}
	}
	for _, l := range s.M.Lids() {
		if _, ok := objs[s.M.UUID[l]]; !ok {
			s.fail("layout", "file-missing", "%s: no file for stored lid=%d (uuid %s)", ctx, l, s.M.UUID[l])
		}
	}
	raw, ok := s.W.FS.RawRead(dir + "/schema.json")
	if !ok {
		s.fail("layout", "schema-missing", "%s: %s/schema.json missing", ctx, dir)
	}
	d, err := DecodeSchema(raw)
	if err != nil {
		s.fail("layout", "schema-format", "%s: schema.json does not follow the pinned format: %v", ctx, err)
	}
	if d.Extension != s.Cfg.Ext || d.Compress != s.Cfg.Compress {
		s.fail("layout", "schema-settings", "%s: schema.json extension=%q compress=%v, expected %q %v", ctx, d.Extension, d.Compress, s.Cfg.Ext, s.Cfg.Compress)
	}
	if len(d.Index.ObjectIds) != len(s.M.Objs) {
		s.fail("layout", "schema-object-ids", "%s: schema.json lists %d objects, expected %d", ctx, len(d.Index.ObjectIds), len(s.M.Objs))
	}
	for _, u := range d.Index.ObjectIds {
		if _, ok := want[u]; !ok {
			s.fail("layout", "schema-object-ids", "%s: schema.json indexes uuid %s which is not stored", ctx, u)
		}
	}
	for _, p := range s.M.ConsPaths() {
		if !s.M.Cons[p].Indexed() {
			continue
		}
		fi, ok := d.Index.Fields[p]
		if !ok {
			s.fail("layout", "schema-field-index", "%s: schema.json has no index for %s", ctx, p)
		}
		if len(fi.Index) != len(s.M.Objs) {
			s.fail("layout", "schema-field-index", "%s: index of %s has %d entries, expected %d", ctx, p, len(fi.Index), len(s.M.Objs))
		}
		for _, tup := range fi.Index {
			if len(tup) != 2 {
				s.fail("layout", "schema-tuple", "%s: index entry of %s is not a [value, id] pair", ctx, p)
			}
			u, ok := d.Index.ObjectIds[string(tup[1])]
			if !ok {
				s.fail("layout", "schema-tuple", "%s: index entry of %s refers to unknown object id %s", ctx, p, tup[1])
			}
			exp := s.M.FieldOf(want[u], p)
			if got := string(tup[0]); got != encodeIndexValue(exp) {
				s.fail("layout", "schema-index-value", "%s: index of %s holds %s for lid=%d, expected %s", ctx, p, got, want[u], encodeIndexValue(exp))
			}
		}
	}
	s.stat("layout-checked")
}

func encodeIndexValue(v model.NVal) string {
	var x interface{}
	switch v.K {
	case 'i':
		x = v.I
	case 'u':
		x = v.U
	case 'f':
		x = v.F
	default:
		x = v.S
	}
	b, _ := json.Marshal(x)
	return string(b)
}
