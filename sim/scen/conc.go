package scen

import (
	"fmt"
	"os"
	"sort"
	"strings"
	"time"

	"github.com/0xrawsec/sod"
	"github.com/anishathalye/porcupine"

	"verifsim/model"
	"verifsim/shapes"
	"verifsim/simrt"
)

// COp is one call of a concurrent client.
type COp struct {
	Client int
	K      string // put get exist del count all assignall search many sdel delall flush control create commit assignindex
	Lid    int
	Rec    *shapes.Rec
	Q      *Query
	Mode   string
	Batch  []BatchItem
	NCfg   *Config
}

func (o COp) String() string {
	switch o.K {
	case "put":
		return fmt.Sprintf("c%d put lid=%d raw=%q", o.Client, o.Lid, o.Rec.Raw)
	case "search", "sdel":
		return fmt.Sprintf("c%d %s[%s] %s", o.Client, o.K, o.Mode, o.Q)
	case "many":
		s := fmt.Sprintf("c%d many[", o.Client)
		for _, b := range o.Batch {
			s += fmt.Sprintf("lid=%d raw=%q;", b.Lid, b.Rec.Raw)
		}
		return s + "]"
	case "create":
		return fmt.Sprintf("c%d create cache=%v async=%v %s", o.Client, o.NCfg.Cache, o.NCfg.Async, o.Mode)
	}
	return fmt.Sprintf("c%d %s lid=%d %s", o.Client, o.K, o.Lid, o.Mode)
}

type hEvent struct {
	Op   COp
	Out  string
	Call uint64
	Ret  uint64
}

// Conc is the multi-client scenario.
type Conc struct {
	W     *simrt.World
	Cfg   *Config
	Pools *Pools
	Root  string
	db    *sod.DB
	uuids []string // by lid; a slice, not a map: client tasks share it
	hist  []hEvent
	V     *Violation
	Stats map[string]int
	async bool
}

//go:norace
func (c *Conc) record(e hEvent) { c.hist = append(c.hist, e) }

//go:norace
func (c *Conc) uuidOf(lid int) string {
	if lid < 0 || lid >= len(c.uuids) {
		return ""
	}
	return c.uuids[lid]
}

//go:norace
func (c *Conc) setUUID(lid int, u string) {
	if lid >= 0 && lid < len(c.uuids) && c.uuids[lid] == "" {
		c.uuids[lid] = u
	}
}

func lidJSON(objs []sod.Object) string {
	var l []string
	for _, o := range objs {
		if r, ok := o.(*shapes.Rec); ok && r != nil {
			l = append(l, fmt.Sprintf("%d=%s", r.Lid, model.JSON(r)))
		} else {
			l = append(l, fmt.Sprintf("?%T", o))
		}
	}
	sort.Strings(l)
	return strings.Join(l, "\n")
}

// do performs one call and encodes its result.
func (c *Conc) do(op COp) string {
	switch op.K {
	case "put":
		o := model.Clone(op.Rec)
		o.Initialize(c.uuidOf(op.Lid))
		o.Lid = op.Lid
		err := c.db.InsertOrUpdate(o)
		if err == nil {
			c.setUUID(op.Lid, o.UUID())
			return "ok"
		}
		return ErrClass(err)
	case "get":
		u := c.uuidOf(op.Lid)
		if u == "" {
			u = absentUUID(op.Lid)
		}
		var o sod.Object
		var err error
		if op.Mode == "uuid" {
			o, err = c.db.GetByUUID(rec0(), u)
		} else {
			in := rec0()
			in.Initialize(u)
			o, err = c.db.Get(in)
		}
		if err != nil {
			if IsNotFound(err) {
				return "nf"
			}
			return "err:" + err.Error()
		}
		js := model.JSON(o.(*shapes.Rec))
		// what a read returns belongs to the caller, who may write to it without any lock
		Scribble(o.(*shapes.Rec))
		return js
	case "exist":
		u := c.uuidOf(op.Lid)
		if u == "" {
			u = absentUUID(op.Lid)
		}
		in := rec0()
		in.Initialize(u)
		ok, err := c.db.Exist(in)
		if err != nil {
			return "err:" + err.Error()
		}
		return fmt.Sprint(ok)
	case "del":
		u := c.uuidOf(op.Lid)
		if u == "" {
			u = absentUUID(op.Lid)
		}
		in := rec0()
		in.Initialize(u)
		if err := c.db.Delete(in); err != nil {
			return "err:" + err.Error()
		}
		return "ok"
	case "delall":
		if err := c.db.DeleteAll(rec0()); err != nil {
			return "err:" + err.Error()
		}
		return "ok"
	case "count":
		n, err := c.db.Count(rec0())
		if err != nil {
			return "err:" + err.Error()
		}
		return fmt.Sprint(n)
	case "all":
		objs, err := c.db.All(rec0())
		if err != nil {
			return "err:" + err.Error()
		}
		return lidJSON(objs)
	case "assignall":
		var out []*shapes.Rec
		if err := c.db.AssignAll(rec0(), &out); err != nil {
			return "err:" + err.Error()
		}
		var objs []sod.Object
		for _, r := range out {
			objs = append(objs, r)
		}
		js := lidJSON(objs)
		for _, r := range out {
			Scribble(r)
		}
		return js
	case "drop":
		// everything goes, on disk and on the handle, while the other clients and the flusher
		// run (their calls may fail until the collection exists again)
		if err := c.db.Drop(); err != nil {
			return "err:" + err.Error()
		}
		if err := c.db.Create(rec0(), c.Cfg.Schema()); err != nil {
			return "err:" + err.Error()
		}
		return "dropped"
	case "misuse":
		// the documented misuse of an Assign target panics; the caller recovers and
		// the handle must keep serving everybody
		func() {
			defer func() { recover() }()
			var wrong []*shapes.Small
			c.db.AssignAll(rec0(), &wrong)
		}()
		return "misused"
	case "search":
		sr := c.db.Search(rec0(), op.Q.First.Path, op.Q.First.Op, op.Q.First.V.Go())
		for _, cj := range op.Q.Rest {
			if cj.Or {
				sr = sr.Or(cj.C.Path, cj.C.Op, cj.C.V.Go())
			} else {
				sr = sr.And(cj.C.Path, cj.C.Op, cj.C.V.Go())
			}
		}
		if op.Mode == "len" && len(op.Q.Rest) == 0 {
			if sr.Err() != nil {
				return "err:" + ErrClass(sr.Err())
			}
			return fmt.Sprint(sr.Len())
		}
		if sr.Err() != nil {
			// a refinement evaluated after a concurrent delete may legitimately fail
			return "collected"
		}
		// a search is evaluated at Search/And/Or time and collected later: several
		// calls, not one atomic operation. Only the single-call form (Search+Len)
		// takes part in the linearizability check; the chained and collecting
		// forms are exercised for races, panics and deadlocks.
		objs, err := sr.Collect()
		for _, o := range objs {
			if _, ok := o.(*shapes.Rec); !ok {
				return "err:foreign"
			}
		}
		_ = err
		return "collected"
	case "sdel":
		sr := c.db.Search(rec0(), op.Q.First.Path, op.Q.First.Op, op.Q.First.V.Go())
		if err := sr.Delete(); err != nil {
			return "err:" + ErrClass(err)
		}
		return "ok"
	case "many":
		var list []sod.Object
		var recs []*shapes.Rec
		for _, b := range op.Batch {
			o := model.Clone(b.Rec)
			o.Initialize(c.uuidOf(b.Lid))
			o.Lid = b.Lid
			list = append(list, o)
			recs = append(recs, o)
		}
		n, err := c.db.InsertOrUpdateMany(list...)
		if err == nil {
			for i, b := range op.Batch {
				c.setUUID(b.Lid, recs[i].UUID())
			}
		}
		return fmt.Sprintf("%d|%s", n, ErrClass(err))
	case "flush":
		var err error
		switch op.Mode {
		case "all":
			err = c.db.FlushAll(rec0())
		default:
			err = c.db.FlushAllAndCommit(rec0())
		}
		if err != nil {
			return "err:" + err.Error()
		}
		return "ok"
	case "close":
		if err := c.db.Close(); err != nil {
			return "err:" + err.Error()
		}
		return "ok"
	case "bulk":
		ch := make(chan sod.Object, len(op.Batch)+1)
		var recs []*shapes.Rec
		for _, b := range op.Batch {
			o := model.Clone(b.Rec)
			o.Initialize(c.uuidOf(b.Lid))
			o.Lid = b.Lid
			ch <- o
			recs = append(recs, o)
		}
		close(ch)
		n, err := c.db.InsertOrUpdateBulk(ch, 1)
		for i, b := range op.Batch {
			if i < n {
				c.setUUID(b.Lid, recs[i].UUID())
			}
		}
		return fmt.Sprintf("%d|%s", n, ErrClass(err))
	case "commit":
		if err := c.db.Commit(rec0()); err != nil {
			return "err:" + err.Error()
		}
		return "ok"
	case "control":
		if err := c.db.Control(); err != nil {
			return "err:" + err.Error()
		}
		return "ok"
	case "create":
		if op.Mode == "cycle" {
			// async off and on again while the flusher and the other clients run
			off := *op.NCfg
			off.Async, off.OffStruct = false, op.Lid%2 == 0
			if err := c.db.Create(rec0(), off.Schema()); err != nil {
				return "err:" + err.Error()
			}
		}
		if err := c.db.Create(rec0(), op.NCfg.Schema()); err != nil {
			return "err:" + err.Error()
		}
		return "ok"
	case "assignindex":
		n, err := assignIndexLen(c.db, op.Mode)
		if err != nil {
			return "err:" + err.Error()
		}
		return fmt.Sprint(n)
	}
	return "?"
}

// ---- sequential specification for porcupine

type cstate struct{ key string }

var cmemo = map[string]*model.Model{}

func stateKey(m *model.Model) string {
	var b strings.Builder
	for _, l := range m.Lids() {
		fmt.Fprintf(&b, "%d=%s\n", l, model.JSON(m.Objs[l]))
	}
	return b.String()
}

func modelAll(m *model.Model, lids []int) string {
	var l []string
	for _, x := range lids {
		l = append(l, fmt.Sprintf("%d=%s", x, model.JSON(m.Objs[x])))
	}
	sort.Strings(l)
	return strings.Join(l, "\n")
}

// cstep is the sequential semantics of one call: ok iff out is a legal result.
func cstep(cons map[string]model.Cons, asyncMode bool, m *model.Model, op COp, out string) (bool, *model.Model) {
	switch op.K {
	case "put":
		exp := model.Clone(op.Rec)
		exp.Lid = op.Lid
		m.Canon(exp)
		classes := map[string]bool{}
		if !model.Valid(exp) {
			classes[model.EInvalid] = true
		}
		if len(m.Conflicts(exp, op.Lid)) > 0 {
			classes[model.EUnique] = true
		}
		if len(classes) > 0 {
			return classes[out], m
		}
		if out != "ok" {
			return false, m
		}
		n := m.CopyState()
		n.Put(op.Lid, exp)
		return true, n
	case "get":
		if o, ok := m.Objs[op.Lid]; ok {
			return out == model.JSON(o), m
		}
		return out == "nf", m
	case "exist":
		_, ok := m.Objs[op.Lid]
		return out == fmt.Sprint(ok), m
	case "del":
		if out != "ok" {
			return false, m
		}
		if _, ok := m.Objs[op.Lid]; !ok {
			return true, m
		}
		n := m.CopyState()
		n.Delete(op.Lid)
		return true, n
	case "delall":
		if out != "ok" {
			return false, m
		}
		return true, model.New(cons)
	case "misuse":
		return out == "misused", m
	case "count":
		return out == fmt.Sprint(len(m.Objs)), m
	case "assignindex":
		return out == fmt.Sprint(len(m.Objs)), m
	case "all", "assignall":
		return out == modelAll(m, m.Lids()), m
	case "search":
		if !(op.Mode == "len" && len(op.Q.Rest) == 0) {
			// several API calls: not part of the linearizability judgement
			return out == "collected", m
		}
		set, e := evalQuery(m, op.Q)
		if e != "" {
			return strings.HasPrefix(out, "err:"), m
		}
		return out == fmt.Sprint(len(set)), m
	case "sdel":
		set, e := evalQuery(m, op.Q)
		if e != "" {
			return strings.HasPrefix(out, "err:"), m
		}
		if out != "ok" {
			return false, m
		}
		if len(set) == 0 {
			return true, m
		}
		n := m.CopyState()
		for l := range set {
			n.Delete(l)
		}
		return true, n
	case "many":
		n := m.CopyState()
		classes := map[string]bool{}
		ids := map[int]*shapes.Rec{}
		var order []int
		for _, b := range op.Batch {
			exp := model.Clone(b.Rec)
			exp.Lid = b.Lid
			m.Canon(exp)
			if !model.Valid(exp) {
				classes[model.EInvalid] = true
			}
			if len(m.Conflicts(exp, b.Lid)) > 0 {
				classes[model.EUnique] = true
			}
			ids[b.Lid] = exp
			order = append(order, b.Lid)
		}
		for i, a := range order {
			for _, b := range order[i+1:] {
				for _, p := range m.ConsPaths() {
					if m.Cons[p].Unique && model.Cmp(fieldN(ids[a], p), fieldN(ids[b], p)) == 0 {
						classes[model.EUnique] = true
					}
				}
			}
		}
		if len(classes) > 0 {
			for k := range classes {
				if out == "0|"+k {
					return true, m
				}
			}
			return false, m
		}
		if out != fmt.Sprintf("%d|", len(op.Batch)) {
			return false, m
		}
		for _, l := range order {
			n.Put(l, ids[l])
		}
		return true, n
	case "control":
		if asyncMode {
			return true, m // only required to succeed when nothing is pending
		}
		return out == "ok", m
	case "flush", "commit", "create", "close":
		return out == "ok", m
	}
	return false, m
}

func concModel(cons map[string]model.Cons, init *model.Model, asyncMode bool) porcupine.Model {
	cmemo = map[string]*model.Model{}
	k0 := stateKey(init)
	cmemo[k0] = init
	return porcupine.Model{
		Init: func() interface{} { return k0 },
		Step: func(state, input, output interface{}) (bool, interface{}) {
			m := cmemo[state.(string)]
			ok, n := cstep(cons, asyncMode, m, input.(COp), output.(string))
			if !ok {
				return false, state
			}
			if n == m {
				return true, state
			}
			k := stateKey(n)
			if _, have := cmemo[k]; !have {
				cmemo[k] = n
			}
			return true, k
		},
		DescribeOperation: func(input, output interface{}) string {
			return fmt.Sprintf("%s -> %.60s", input.(COp).String(), output.(string))
		},
	}
}

// ---- generation

type concPlan struct {
	Pre     []COp
	Clients [][]COp
	Fresh   bool // clients start on a handle that has not loaded the schema yet
	Linear  bool // every call is a single atomic API call: the history is checked with porcupine
}

func genConc(r *simrt.Rand, cfg *Config, pools *Pools, heavyReaders, linear bool) *concPlan {
	p := &concPlan{Fresh: r.Chance(1, 2), Linear: linear}
	nPre := 1 + r.Intn(4)
	wid := 0
	newRec := func(bad bool) *shapes.Rec {
		x := GenRec(r, pools, false)
		wid++
		x.Raw = fmt.Sprintf("w%d", wid)
		if bad {
			x.Raw = fmt.Sprintf("bad-w%d", wid)
		}
		return x
	}
	for l := 1; l <= nPre; l++ {
		p.Pre = append(p.Pre, COp{Client: 0, K: "put", Lid: l, Rec: newRec(false)})
	}
	nc := 2 + r.Intn(3)
	nextLid := nPre + 1
	kinds := []string{"put", "put", "put", "get", "get", "exist", "del", "count", "all", "assignall", "search", "search", "many", "sdel",
		"flush", "control", "create", "commit", "assignindex", "delall"}
	if heavyReaders {
		kinds = []string{"put", "put", "del", "all", "all", "assignall", "assignall", "search", "search", "count", "delall", "many", "sdel", "get"}
	}
	kinds = append(kinds, "close", "misuse")
	if !linear {
		kinds = append(kinds, "bulk", "bulk", "create", "drop")
	}
	if linear {
		// Search(...).Delete() is an evaluation followed by a deletion: two calls
		var ks []string
		for _, k := range kinds {
			if k != "sdel" {
				ks = append(ks, k)
			}
		}
		kinds = ks
	}
	g := &gen{r: r, cfg: cfg, pools: pools, prof: Profiles["C08"]}
	for c := 1; c <= nc; c++ {
		n := 2 + r.Intn(6)
		var ops []COp
		for i := 0; i < n; i++ {
			k := kinds[r.Intn(len(kinds))]
			op := COp{Client: c, K: k}
			lid := 1 + r.Intn(nPre)
			switch k {
			case "put":
				if r.Chance(1, 4) {
					lid = nextLid
					nextLid++
				}
				op.Lid = lid
				op.Rec = newRec(r.Chance(1, 10))
			case "get":
				op.Lid = lid
				if r.Bool() {
					op.Mode = "uuid"
				}
				if r.Chance(1, 8) {
					op.Lid = 900 + r.Intn(3)
				}
			case "exist", "del":
				op.Lid = lid
			case "search", "sdel":
				op.Q = &Query{First: g.cmp()}
				if k == "search" && r.Chance(1, 3) {
					// pattern searches, preferably on an indexed string field (every operator
					// has its own path through the index code)
					var sp []string
					for _, pth := range sortedKeys(cfg.Cons) {
						if stringPaths[pth] && cfg.Cons[pth].Indexed() {
							sp = append(sp, pth)
						}
					}
					if len(sp) == 0 {
						sp = []string{"S", "Lo", "In.S"}
					}
					op.Q = &Query{First: Cmp{Path: sp[r.Intn(len(sp))], Op: "~=", V: Val{T: "string", S: []string{"^a", "b$", "(?i)ab", ".", "[A-Z]"}[r.Intn(5)]}}}
				}
				if k == "search" {
					op.Mode = []string{"len", "collect"}[r.Intn(2)]
					if op.Mode == "collect" && r.Bool() {
						op.Q = g.query(false) // chained refinement
					}
				}
			case "many", "bulk":
				nb := 1 + r.Intn(3)
				seen := map[int]bool{}
				for j := 0; j < nb; j++ {
					bl := 1 + r.Intn(nPre)
					if r.Chance(1, 3) {
						bl = nextLid
						nextLid++
					}
					if seen[bl] {
						continue
					}
					seen[bl] = true
					op.Batch = append(op.Batch, BatchItem{Lid: bl, Rec: newRec(r.Chance(1, 12))})
				}
			case "assignindex":
				var idx []string
				for _, pth := range sortedKeys(cfg.Cons) {
					if cfg.Cons[pth].Indexed() {
						idx = append(idx, pth)
					}
				}
				if len(idx) == 0 {
					op.K = "count"
				} else {
					op.Mode = idx[r.Intn(len(idx))]
				}
			case "flush":
				op.Mode = []string{"all", "allcommit"}[r.Intn(2)]
			case "create":
				nc := *cfg
				nc.Cache = r.Bool()
				if cfg.Async {
					nc.Threshold = []int{1, 2, 3, 1000}[r.Intn(4)]
				}
				if !linear && r.Chance(1, 2) {
					// live switch of async writes while other clients and the flusher run
					nc.Async = !cfg.Async || r.Bool()
					if nc.Async && nc.Threshold == 0 {
						nc.Threshold, nc.TimeoutMs = []int{1, 2, 1000}[r.Intn(3)], []int64{100, 1000, 3600000}[r.Intn(3)]
					}
					if r.Chance(1, 3) {
						nc.Async = false
					}
				}
				nc.OffStruct = r.Bool()
				if !linear && nc.Async && r.Chance(1, 2) {
					op.Mode = "cycle"
				}
				op.NCfg = &nc
			}
			ops = append(ops, op)
		}
		p.Clients = append(p.Clients, ops)
	}
	return p
}

// RunConc is the C08/C09 scenario.
func RunConc(p Params) *Result {
	prof := Profiles["C08"]
	r := simrt.NewRand(simrt.Mix(p.Seed, 11))
	cfg := GenConfig(r.Fork(1), prof)
	pools := GenPools(r.Fork(2), 3)
	heavy := p.Prop == "C09" && r.Fork(9).Chance(1, 2)
	linear := !heavy && (p.Prop == "C08" && p.Extra["race"] == 0 || r.Fork(10).Chance(1, 2))
	plan := genConc(r.Fork(3), cfg, pools, heavy, linear)
	w := simrt.NewWorld(simrt.Mix(p.Seed, 12))
	w.Drift = []int{0, 15, 60}[r.Fork(12).Intn(3)] // running code takes time: the flusher may wake inside a client call
	sr := r.Fork(4)
	if p.Sched != nil {
		w.Sched = *p.Sched
	} else if sr.Chance(1, 3) {
		w.Sched = simrt.Sched{Kind: "pct", Depth: 1 + sr.Intn(3), Span: 100 + sr.Intn(400)}
	} else {
		w.Sched = simrt.Sched{Kind: "uniform", Sticky: []int{0, 50, 90}[sr.Intn(3)]}
	}
	skip := map[int]bool{}
	for _, i := range p.Skip {
		skip[i] = true
	}
	// op numbering for minimisation: pre ops, then clients round robin
	idx := 0
	var pre []COp
	for _, o := range plan.Pre {
		if !skip[idx] {
			pre = append(pre, o)
		}
		idx++
	}
	clients := make([][]COp, len(plan.Clients))
	nops := len(pre)
	var opsDesc []string
	for ci, ops := range plan.Clients {
		for _, o := range ops {
			if !skip[idx] {
				clients[ci] = append(clients[ci], o)
				opsDesc = append(opsDesc, fmt.Sprintf("#%d %s", idx, o.String()))
				nops++
			}
			idx++
		}
	}
	c := &Conc{W: w, Cfg: cfg, Pools: pools, Root: "/db", uuids: make([]string, 4096), Stats: map[string]int{}, async: cfg.Async}
	Setup(w, cfg)
	cfg0 := *cfg
	var lin porcupine.CheckResult = porcupine.Ok
	w.Run(func() {
		c.db = sod.Open(c.Root)
		if err := c.db.Create(rec0(), cfg.Schema()); err != nil {
			c.V = &Violation{Tag: "read", Sig: "read:create-failed", Msg: err.Error()}
			return
		}
		rr := simrt.NewRand(simrt.Mix(p.Seed, 13))
		for _, o := range pre {
			// every pre-inserted object must exist (clients address it by uuid)
			for try := 0; try < 8; try++ {
				call := w.NextSeq()
				out := c.do(o)
				c.record(hEvent{Op: o, Out: out, Call: call, Ret: w.NextSeq()})
				if out == "ok" {
					break
				}
				raw := o.Rec.Raw
				o.Rec = GenRec(rr, GenPools(rr, 12), false)
				o.Rec.Raw = raw
			}
			if c.uuidOf(o.Lid) == "" {
				c.V = &Violation{Tag: "setup", Sig: "setup:pre-insert-rejected", Msg: "could not pre-insert lid"}
				return
			}
		}
		if plan.Fresh {
			c.db.Close()
			c.db = sod.Open(c.Root)
			c.Stats["probe:first-access-concurrent"]++
		}
		var tasks []*simrt.Task
		for ci := range clients {
			ops := clients[ci]
			tasks = append(tasks, w.Spawn(fmt.Sprintf("client%d", ci+1), func() {
				for _, o := range ops {
					call := w.NextSeq()
					out := c.do(o)
					c.record(hEvent{Op: o, Out: out, Call: call, Ret: w.NextSeq()})
				}
			}))
		}
		for _, t := range tasks {
			w.Join(t)
		}
		// final observation by one client, part of the history
		fin := []COp{{Client: 99, K: "flush", Mode: "allcommit"}, {Client: 99, K: "all"}, {Client: 99, K: "count"}}
		if !cfg.Async {
			fin = append(fin, COp{Client: 99, K: "control"})
		}
		for _, o := range fin {
			call := w.NextSeq()
			out := c.do(o)
			c.record(hEvent{Op: o, Out: out, Call: call, Ret: w.NextSeq()})
		}
		c.db.Close()
	})
	res := &Result{Params: p, Digest: w.Digest(), Class: cfg0.Class() + " " + w.Sched.Kind, Steps: w.Steps, SimMs: int64(w.Now() / 1e6),
		NOps: nops, Stats: c.Stats, Config: cfg0.String() + " sched=" + w.Sched.Kind, Decisions: len(w.Decisions)}
	for k, v := range w.Stats {
		res.Stats["w:"+k] = v
	}
	res.Stats["preemptions"] = w.Preempt
	switch {
	case c.V != nil && c.V.Tag == "setup":
		c.V = nil
		res.Incon = "pre-insert rejected (unique pool exhausted)"
	case c.V != nil:
	case len(w.Panics) > 0:
		pn := w.Panics[0]
		c.V = &Violation{Tag: "panic", Sig: "panic:" + panicSite(pn.Stack), Msg: fmt.Sprintf("task %s panicked: %s\n%s", pn.Task, pn.Value, trimStack(pn.Stack))}
	case w.Deadlock != nil:
		c.V = &Violation{Tag: "deadlock", Sig: "deadlock:" + w.Deadlock.Kind, Msg: w.Deadlock.String()}
	case w.OverSteps:
		res.Incon = "step budget exhausted"
	case w.Stalls > 0:
		res.Incon = "stall: the code under test waited on a primitive the simulator does not see and was released by another task"
	case !plan.Linear:
		res.Stats["not-checked-for-linearizability"]++
	default:
		// linearizability of the recorded history
		var ops []porcupine.Operation
		for _, e := range c.hist {
			ops = append(ops, porcupine.Operation{ClientId: e.Op.Client % 90, Input: e.Op, Call: int64(e.Call), Output: e.Out, Return: int64(e.Ret)})
		}
		init := model.New(cfg.Cons)
		lin = porcupine.CheckOperationsTimeout(concModel(cfg.Cons, init, cfg.Async), ops, 20*time.Second)
		res.Stats["porcupine:"+string(lin)]++
		switch lin {
		case porcupine.Illegal:
			var b strings.Builder
			for _, e := range c.hist {
				fmt.Fprintf(&b, "  [%d,%d] %s -> %.100s\n", e.Call, e.Ret, e.Op.String(), strings.ReplaceAll(e.Out, "\n", " | "))
			}
			c.V = &Violation{Tag: "linear", Sig: "linear:not-linearizable", Msg: "the history has no sequential explanation:\n" + b.String()}
		case porcupine.Unknown:
			res.Incon = "porcupine timed out"
		}
	}
	res.V = c.V
	res.Stalls = w.Stalls
	if res.V != nil || p.Extra["dump"] == 1 {
		res.Ops = opsDesc
	}
	if len(opsDesc) > 0 {
		res.Sample = fmt.Sprintf("%d clients, %d calls, first: %s", len(clients), nops, opsDesc[0])
	}
	return res
}

// RaceReports parses new ThreadSanitizer reports from the worker's own log.
func RaceReports(path string, offset *int64) []string {
	b, err := os.ReadFile(path)
	if err != nil || int64(len(b)) <= *offset {
		return nil
	}
	txt := string(b[*offset:])
	*offset = int64(len(b))
	var out []string
	for _, blk := range strings.Split(txt, "==================") {
		if !strings.Contains(blk, "DATA RACE") {
			continue
		}
		// the first frame of each of the two access stacks
		var tops []string
		lines := strings.Split(blk, "\n")
		for i, l := range lines {
			t := strings.TrimSpace(l)
			if (strings.HasPrefix(t, "Read at") || strings.HasPrefix(t, "Write at") || strings.HasPrefix(t, "Previous read at") || strings.HasPrefix(t, "Previous write at")) && i+1 < len(lines) {
				// first non-runtime frame
				for j := i + 1; j < len(lines); j += 2 {
					f := strings.TrimSpace(lines[j])
					if f == "" {
						break
					}
					if strings.HasPrefix(f, "runtime.") || strings.HasPrefix(f, "reflect.") || strings.HasPrefix(f, "internal/") {
						continue
					}
					if k := strings.Index(f, "("); k > 0 && strings.HasPrefix(f, "github.com/0xrawsec/sod.") {
						f = f[:strings.LastIndex(f, "(")]
					}
					tops = append(tops, f)
					break
				}
			}
		}
		if len(tops) == 2 && strings.HasPrefix(tops[0], "github.com/0xrawsec/sod.") && strings.HasPrefix(tops[1], "github.com/0xrawsec/sod.") {
			a, b := strings.TrimPrefix(tops[0], "github.com/0xrawsec/sod."), strings.TrimPrefix(tops[1], "github.com/0xrawsec/sod.")
			if a > b {
				a, b = b, a
			}
			out = append(out, a+" / "+b+"\n"+blk)
		}
	}
	return out
}

func assignIndexLen(db *sod.DB, path string) (int, error) {
	switch typeOfPath(path) {
	case "int8", "int16", "int32", "int64", "int":
		var t []int64
		err := db.AssignIndex(rec0(), path, &t)
		return len(t), err
	case "time":
		var t []time.Time
		err := db.AssignIndex(rec0(), path, &t)
		return len(t), err
	case "uint8", "uint16", "uint32", "uint64", "uint":
		var t []uint64
		err := db.AssignIndex(rec0(), path, &t)
		return len(t), err
	case "float32", "float64":
		var t []float64
		err := db.AssignIndex(rec0(), path, &t)
		return len(t), err
	}
	var t []string
	err := db.AssignIndex(rec0(), path, &t)
	return len(t), err
}
