package scen

import (
	"fmt"
	"time"

	"verifsim/model"
)

// pendingNow lists the stored objects whose accepted value is not (yet) in
// their file: an independent, disk-derived lower bound of the pending set.
func (s *Seq) pendingNow() ([]int, error) {
	dir := CollDir(s.Root, s.Cfg.Lower)
	objs, _, err := DiskObjects(s.W.FS, dir, s.Cfg.Ext, s.Cfg.Compress)
	if err != nil {
		return nil, err
	}
	var out []int
	for _, l := range s.M.Lids() {
		o, ok := objs[s.M.UUID[l]]
		if !ok || model.JSON(o) != model.JSON(s.M.Objs[l]) {
			out = append(out, l)
		}
	}
	return out, nil
}

// checkNoGhostFiles: an object that is not stored has no file, at any time.
func (s *Seq) checkNoGhostFiles(ctx string) {
	dir := CollDir(s.Root, s.Cfg.Lower)
	objs, _, err := DiskObjects(s.W.FS, dir, s.Cfg.Ext, s.Cfg.Compress)
	if err != nil {
		s.fail("async", "undecodable-file", "%s: %v", ctx, err)
	}
	live := map[string]bool{}
	for _, l := range s.M.Lids() {
		live[s.M.UUID[l]] = true
	}
	for _, l := range sortedInts(s.M.UUID) {
		u := s.M.UUID[l]
		if _, onDisk := objs[u]; onDisk && !live[u] {
			s.fail("async", "deleted-object-on-disk", "%s: lid=%d was deleted (possibly while its write was pending) but its file %s exists", ctx, l, u)
		}
	}
	s.stat("ghost-files-checked")
}

// opAwait: the client stops issuing calls and sleeps; pending writes must
// reach the disk by themselves (threshold or timeout), schema committed.
func (s *Seq) opAwait(op *Op) {
	if !s.Cfg.Async {
		return
	}
	p0, err := s.pendingNow()
	if err != nil {
		s.fail("async", "undecodable-file", "await: %v", err)
	}
	timeout := time.Duration(s.Cfg.TimeoutMs) * time.Millisecond
	budget := 10 * time.Minute // liveness budget stated in DESIGN.md, far above any polling period
	var d time.Duration
	why := ""
	switch {
	case op.Mode == "threshold" && len(p0) >= s.Cfg.Threshold && len(p0) > 0:
		d = budget
		why = fmt.Sprintf("%d writes pending >= threshold %d", len(p0), s.Cfg.Threshold)
		s.stat("probe:await-threshold")
	case op.Mode == "timeout":
		d = 2*timeout + budget
		why = fmt.Sprintf("timeout %v elapsed twice", timeout)
		if len(p0) > 0 {
			s.stat("probe:await-timeout-with-pending")
		}
	default:
		return
	}
	s.sleep(d)
	// a flusher may be in the middle of a flush / commit at this very instant: let it
	// finish (no simulated time passes) before looking at the disk
	s.W.Settle()
	p1, err := s.pendingNow()
	if err != nil {
		s.fail("async", "undecodable-file", "await: %v", err)
	}
	if len(p1) > 0 {
		s.fail("async", "not-flushed:"+op.Mode, "no call was issued for %v of simulated time (%s), yet the accepted writes of lids %v are still not on disk [tasks: %s]", d, why, p1, s.W.TaskStates())
	}
	if op.Mode == "timeout" && msDur(s.smallTimeoutMs) <= timeout {
		// every collection has its own flusher; the second collection keeps the
		// timeout it was created with when a Create switched the first one's
		s.smallDirty = false
	}
	s.quiescent = !s.smallDirty
	s.checkLayout("await-" + op.Mode)
	s.checkNoGhostFiles("await-" + op.Mode)
}

// afterFlushCall: FlushAll / FlushAllAndCommit returned: everything accepted
// for the collection is on disk now.
func (s *Seq) afterFlushCall(mode string) {
	p, err := s.pendingNow()
	if err != nil {
		s.fail("async", "undecodable-file", "flush: %v", err)
	}
	if len(p) > 0 {
		s.fail("async", "flush-returned-early:"+mode, "flush(%s) returned but the accepted writes of lids %v are not on disk", mode, p)
	}
	s.stat("flush-return-checked")
	if mode == "allcommit" {
		s.checkLayout("after-flushallandcommit")
	}
}
