package scen

import (
	"bytes"
	"encoding/json"
	"fmt"
	"sort"
	"strings"

	"github.com/0xrawsec/sod"

	"verifsim/model"
	"verifsim/shapes"
)

// A second collection (struct tags, its own directory) lives beside the Rec
// collection in every history: operations on one must never disturb the other,
// Close must flush and commit both.

type smallModel struct {
	objs map[int]*shapes.Small // by K (unique)
	uuid map[int]string
	next int
}

func small0() *shapes.Small { return &shapes.Small{} }

func (s *Seq) smallSchema() sod.Schema {
	sc := sod.Schema{Extension: ".json", Compress: s.Cfg.Compress, Cache: s.Cfg.Cache}
	if s.Cfg.Async {
		sc.AsyncWrites = sharedAsync(s.Cfg.Threshold, s.Cfg.TimeoutMs) // the same value as the first collection's
	}
	return sc
}

func (s *Seq) smallOpen() {
	if s.small == nil {
		s.small = &smallModel{objs: map[int]*shapes.Small{}, uuid: map[int]string{}, next: 1}
	}
	if err := s.db.Create(small0(), s.smallSchema()); err != nil {
		s.fail("read", "small-create-failed", "Create of the second collection failed: %v", err)
	}
	s.smallAsync = s.Cfg.Async
	s.smallTimeoutMs = s.Cfg.TimeoutMs
}

// smallExtras fills the fields that exist for their kinds: a named string type and
// a pointer to a string with case constraints, an embedded pointer two levels deep.
func (s *Seq) smallExtras(o *shapes.Small, variant int) {
	cs := []string{"", "aB", "AB", "ab", "é", "Zz", "x", "X"}
	o.C = shapes.Code(cs[variant%len(cs)])
	if variant%3 != 0 {
		p := cs[(variant+3)%len(cs)]
		o.PS = &p
	}
	if variant%2 == 0 {
		o.Mid = &shapes.Mid{Deep: shapes.Deep{D: variant % 3}, MN: "m"}
	}
}

// smallExpect is what the collection stores for o: V and PS in lower case, C in upper case.
func smallExpect(o *shapes.Small) *shapes.Small {
	e := &shapes.Small{K: o.K, V: model.Case(o.V, false), W: o.W, C: shapes.Code(model.Case(string(o.C), true))}
	if o.PS != nil {
		p := model.Case(*o.PS, false)
		e.PS = &p
	}
	if o.Mid != nil {
		m := *o.Mid
		e.Mid = &m
	}
	return e
}

func smallJSON(x *shapes.Small) string { b, _ := json.Marshal(x); return string(b) }

func (m *smallModel) keys() []int {
	var k []int
	for x := range m.objs {
		k = append(k, x)
	}
	sort.Ints(k)
	return k
}

// opSmall performs one random operation on the second collection.
func (s *Seq) opSmall() {
	if s.small == nil {
		return
	}
	m := s.small
	r := s.prng
	keys := m.keys()
	vals := []string{"a", "A", "bB", "Zz", "é", "É", ""}
	switch x := r.Intn(8); {
	case x < 3 || len(keys) == 0:
		k := m.next
		m.next++
		o := &shapes.Small{K: k, V: vals[r.Intn(len(vals))], W: fmt.Sprintf("w%d", k)}
		s.smallExtras(o, r.Intn(8))
		exp := smallExpect(o)
		if err := s.db.InsertOrUpdate(o); err != nil {
			s.fail("read", "small-insert-failed", "second collection: insert K=%d failed: %v", k, err)
		}
		m.objs[k] = exp
		m.uuid[k] = o.UUID()
	case x < 5:
		k := keys[r.Intn(len(keys))]
		o := &shapes.Small{K: k, V: vals[r.Intn(len(vals))], W: fmt.Sprintf("w%d-%d", k, s.step)}
		s.smallExtras(o, r.Intn(8))
		exp := smallExpect(o)
		o.Initialize(m.uuid[k])
		if err := s.db.InsertOrUpdate(o); err != nil {
			s.fail("read", "small-update-failed", "second collection: update K=%d failed: %v", k, err)
		}
		m.objs[k] = exp
	case x < 6:
		// a duplicate K must be refused
		k := keys[r.Intn(len(keys))]
		o := &shapes.Small{K: k, V: "dup", W: "dup"}
		if err := s.db.InsertOrUpdate(o); !sod.IsUnique(err) {
			s.fail("unique", "small-duplicate-accepted", "second collection: a second object with K=%d returned %v", k, err)
		}
	default:
		k := keys[r.Intn(len(keys))]
		o := small0()
		o.Initialize(m.uuid[k])
		if err := s.db.Delete(o); err != nil {
			s.fail("read", "small-delete-failed", "second collection: delete K=%d failed: %v", k, err)
		}
		delete(m.objs, k)
	}
	if s.smallAsync {
		s.quiescent = false
		s.smallDirty = true
	}
	s.smallSweep(s.readTag(), "after-small-op")
	// and the first collection is untouched
	s.probeCount(s.readTag(), "after-small-op")
	s.stat("small-collection-op")
}

// smallSweep compares the second collection with its model.
func (s *Seq) smallSweep(tag, ctx string) { s.softOracle("", func() { s.smallSweep0(tag, ctx) }) }

func (s *Seq) smallSweep0(tag, ctx string) {
	if s.small == nil {
		return
	}
	m := s.small
	n, err := s.db.Count(small0())
	if err != nil || n != len(m.objs) {
		s.fail(tag, "small-wrong-count", "%s: second collection: Count=%d,%v expected %d", ctx, n, err, len(m.objs))
	}
	var all []*shapes.Small
	if err := s.db.AssignAll(small0(), &all); err != nil {
		s.fail(tag, "small-all-failed", "%s: second collection: All failed: %v", ctx, err)
	}
	if len(all) != len(m.objs) {
		s.fail(tag, "small-wrong-set", "%s: second collection: All returned %d objects, expected %d", ctx, len(all), len(m.objs))
	}
	for _, o := range all {
		exp, ok := m.objs[o.K]
		if !ok || smallJSON(exp) != smallJSON(o) || o.UUID() != m.uuid[o.K] {
			t := tag
			if ok && strings.EqualFold(smallJSON(exp), smallJSON(o)) {
				t = "case" // only the case of a constrained field differs
			}
			s.fail(t, "small-wrong-content", "%s: second collection: got %s (uuid %s), expected %s", ctx, smallJSON(o), o.UUID(), smallJSON(exp))
		}
	}
	for _, k := range m.keys() {
		o, err := s.db.GetByUUID(small0(), m.uuid[k])
		if err != nil || smallJSON(o.(*shapes.Small)) != smallJSON(m.objs[k]) {
			t := tag
			if err == nil && strings.EqualFold(smallJSON(o.(*shapes.Small)), smallJSON(m.objs[k])) {
				t = "case"
			}
			s.fail(t, "small-get", "%s: second collection: Get K=%d = %v, %v", ctx, k, o, err)
		}
	}
	// a case-insensitive search on the tagged (index,lower) field
	probe := []string{"a", "A", "BB", "zz", "É", "nope"}[s.prng.Intn(6)]
	var got []*shapes.Small
	sr := s.db.Search(small0(), "V", "=", probe)
	if sr.Err() != nil {
		s.fail(tag, "small-search-error", "%s: second collection: search failed: %v", ctx, sr.Err())
	}
	if err := sr.Assign(&got); err != nil {
		s.fail(tag, "small-search-error", "%s: second collection: collect failed: %v", ctx, err)
	}
	want := 0
	for _, k := range m.keys() {
		if m.objs[k].V == model.Case(probe, false) {
			want++
		}
	}
	if len(got) != want {
		s.fail(tag, "small-search-wrong", "%s: second collection: search V=%q returned %d objects, expected %d", ctx, probe, len(got), want)
	}
	// the named string type (upper), the pointer to a string (lower) and the field promoted
	// through an embedded pointer and an embedded structure, by its short name
	cprobe := []string{"ab", "AB", "Ab", "é", "zz", "x"}[s.prng.Intn(6)]
	nPS, nD := 0, 0 // (a field of a named string type cannot be searched: "unknown key type", a documented limitation; what it stores is compared)
	dprobe := s.prng.Intn(3)
	for _, k := range m.keys() {
		o := m.objs[k]
		ps := ""
		if o.PS != nil {
			ps = *o.PS
		}
		if ps == model.Case(cprobe, false) {
			nPS++
		}
		d := 0
		if o.Mid != nil {
			d = o.Mid.D
		}
		if d == dprobe {
			nD++
		}
	}
	for _, pr := range []struct {
		field string
		v     interface{}
		n     int
	}{{"PS", cprobe, nPS}, {"D", dprobe, nD}, {"Mid.Deep.D", dprobe, nD}} {
		sr := s.db.Search(small0(), pr.field, "=", pr.v)
		if sr.Err() != nil {
			s.fail(tag, "small-search-error", "%s: second collection: search %s = %v failed: %v", ctx, pr.field, pr.v, sr.Err())
		}
		if sr.Len() != pr.n {
			s.fail(tag, "small-search-wrong", "%s: second collection: search %s = %v denotes %d objects, expected %d", ctx, pr.field, pr.v, sr.Len(), pr.n)
		}
	}
}

// smallLayout: the second collection's directory at a quiescent point.
func (s *Seq) smallLayout(ctx string) { s.softOracle("layout", func() { s.smallLayout0(ctx) }) }

func (s *Seq) smallLayout0(ctx string) {
	if s.small == nil || !s.quiescent {
		return
	}
	if s.Cfg.Async || s.smallAsync {
		s.W.Settle()
	}
	name := "shapes.Small"
	if s.Cfg.Lower {
		name = snake(name)
	}
	dir := s.Root + "/" + name
	raw, stray, err := DiskRaw(s.W.FS, dir, ".json", s.Cfg.Compress)
	if err != nil {
		s.fail("layout", "small-undecodable", "%s: second collection: %v", ctx, err)
	}
	if len(stray) > 0 {
		s.fail("layout", "small-unexpected-entry", "%s: second collection: unexpected entries %v", ctx, stray)
	}
	m := s.small
	if len(raw) != len(m.objs) {
		s.fail("layout", "small-file-set", "%s: second collection: %d files, expected %d", ctx, len(raw), len(m.objs))
	}
	for _, k := range m.keys() {
		b, ok := raw[m.uuid[k]]
		if !ok {
			s.fail("layout", "small-file-missing", "%s: second collection: no file for K=%d", ctx, k)
		}
		o := small0()
		if err := json.NewDecoder(bytes.NewReader(b)).Decode(o); err != nil || smallJSON(o) != smallJSON(m.objs[k]) {
			s.fail("layout", "small-file-content", "%s: second collection: file of K=%d holds %s, expected %s (%v)", ctx, k, b, smallJSON(m.objs[k]), err)
		}
	}
	s.stat("small-layout-checked")
}
