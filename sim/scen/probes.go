package scen

import (
	"errors"
	"fmt"
	"sort"
	"strings"
	"time"

	"github.com/0xrawsec/sod"

	"verifsim/model"
	"verifsim/shapes"
	"verifsim/simrt"
)

// Probe is one observation of the sweep.
type Probe struct {
	Kind  string // count all assignall get getuuid exist absent search assignindex control
	Lid   int
	Q     *Query
	Mode  string // len collect assign one reverse limit revlimit
	Limit int
	Path  string
}

func (p Probe) String() string {
	switch p.Kind {
	case "search":
		return fmt.Sprintf("search[%s limit=%d] %s", p.Mode, p.Limit, p.Q)
	case "assignindex":
		return "assignindex " + p.Path
	case "get", "getuuid", "exist", "absent":
		return fmt.Sprintf("%s lid=%d", p.Kind, p.Lid)
	}
	return p.Kind
}

func toSet(l []int) map[int]bool {
	m := map[int]bool{}
	for _, x := range l {
		m[x] = true
	}
	return m
}

func setList(m map[int]bool) []int {
	out := make([]int, 0, len(m))
	for k := range m {
		out = append(out, k)
	}
	sort.Ints(out)
	return out
}

// evalQuery is the brute-force denotation of a query on the model.
func evalQuery(m *model.Model, q *Query) (map[int]bool, string) {
	l, e := m.Match(q.First.Path, q.First.Op, q.First.V.Go())
	if e != "" {
		return nil, e
	}
	set := toSet(l)
	for _, c := range q.Rest {
		l2, e := m.Match(c.C.Path, c.C.Op, c.C.V.Go())
		if e != "" {
			return nil, e
		}
		s2 := toSet(l2)
		if c.Or {
			for k := range s2 {
				set[k] = true
			}
		} else {
			for k := range set {
				if !s2[k] {
					delete(set, k)
				}
			}
		}
	}
	return set, ""
}

// orderedBy returns the path whose index order the result must follow, or "".
func (s *Seq) orderedBy(q *Query) string {
	last := q.First
	for _, c := range q.Rest {
		if c.Or {
			return ""
		}
		last = c.C
	}
	if s.Cfg.Cons[last.Path].Indexed() {
		return last.Path
	}
	return ""
}

// dbPath is the path handed to the database: a field of the embedded structure is
// sometimes named the way Go promotes it ("ES" for "Emb.ES"); both names denote
// the same field, with its constraints and its index.
func (s *Seq) dbPath(p string, salt int) string {
	if strings.HasPrefix(p, "Emb.") && (s.step+salt)%2 == 0 {
		s.stat("search:promoted-field-name")
		return strings.TrimPrefix(p, "Emb.")
	}
	return p
}

func (s *Seq) buildSearch(q *Query) *sod.Search {
	sr := s.db.Search(rec0(), s.dbPath(q.First.Path, 0), q.First.Op, q.First.V.Go())
	for i, c := range q.Rest {
		prefix := sr
		// And/Or directly, or through the string-keyed Operation entry point
		viaOp := (len(q.First.Path)+len(c.C.Path)+i+s.step)%3 == 0
		switch {
		case c.Or && viaOp:
			sr = sr.Operation([]string{"or", "||", "OR"}[(i+s.step)%3], s.dbPath(c.C.Path, i+1), c.C.Op, c.C.V.Go())
		case c.Or:
			sr = sr.Or(s.dbPath(c.C.Path, i+1), c.C.Op, c.C.V.Go())
		case viaOp:
			sr = sr.Operation([]string{"and", "&&", "And"}[(i+s.step)%3], s.dbPath(c.C.Path, i+1), c.C.Op, c.C.V.Go())
		default:
			sr = sr.And(s.dbPath(c.C.Path, i+1), c.C.Op, c.C.V.Go())
		}
		if (s.step+i+len(c.C.Path))%2 == 0 && prefix.Err() == nil {
			// a search is a value: a sibling refined from the same prefix after this one
			// (it widens the prefix to the whole collection) must not disturb it
			sib := prefix.Or("Lid", ">=", 0)
			if sib.Err() == nil && sib.Len() != len(s.M.Objs) {
				s.fail(s.searchTag(q, ""), "sibling-wrong-len", "%s: the first %d comparison(s) of the query widened by OR Lid >= 0 denote %d objects, expected all %d", q.String(), i+1, sib.Len(), len(s.M.Objs))
			}
			s.stat("search:sibling")
		}
	}
	return sr
}

// searchTag picks the oracle a search mismatch belongs to.
func (s *Seq) searchTag(q *Query, ov string) string {
	if ov != "" {
		return ov
	}
	if s.rejected {
		return "reject"
	}
	cmps := []Cmp{q.First}
	for _, c := range q.Rest {
		cmps = append(cmps, c.C)
	}
	for _, c := range cmps {
		k := s.Cfg.Cons[c.Path]
		if (k.Upper || k.Lower) && c.V.T == "string" {
			if s.M.PrepProbe(c.Path, c.V.S) != c.V.S {
				return "case"
			}
		}
	}
	return "search"
}

// recOf checks one returned object against the model and returns its lid.
func (s *Seq) recOf(o sod.Object, tag, ctx string) int {
	r, ok := o.(*shapes.Rec)
	if !ok || r == nil {
		s.fail(tag, "foreign-object", "%s: returned object has type %T", ctx, o)
	}
	exp, live := s.M.Objs[r.Lid]
	if !live {
		s.fail(tag, "ghost-object", "%s: returned an object that is not stored: lid=%d uuid=%s %s", ctx, r.Lid, r.UUID(), model.JSON(r))
	}
	if r.UUID() != s.M.UUID[r.Lid] {
		s.fail(tag, "wrong-uuid", "%s: lid=%d has uuid %s, expected %s", ctx, r.Lid, r.UUID(), s.M.UUID[r.Lid])
	}
	if g, e := model.JSON(r), model.JSON(exp); g != e {
		t := tag
		if t == "read" || t == "search" {
			if s.caseDiffOnly(r, exp) {
				t = "case"
			}
		}
		s.fail(t, "wrong-content", "%s: lid=%d content differs\n got: %s\n exp: %s", ctx, r.Lid, g, e)
	}
	lid := r.Lid
	if s.Prof.Scribble {
		Scribble(r)
	}
	return lid
}

// caseDiffOnly reports whether got differs from exp only on case-constrained paths.
func (s *Seq) caseDiffOnly(got, exp *shapes.Rec) bool {
	g := model.Clone(got)
	for _, p := range s.M.ConsPaths() {
		c := s.M.Cons[p]
		if c.Upper {
			model.SetCase(g, p, true)
		}
		if c.Lower {
			model.SetCase(g, p, false)
		}
	}
	return model.JSON(g) == model.JSON(exp)
}

func (s *Seq) recsOf(objs []sod.Object, tag, ctx string) []int {
	out := make([]int, 0, len(objs))
	seen := map[int]bool{}
	for _, o := range objs {
		l := s.recOf(o, tag, ctx)
		if seen[l] {
			s.fail(tag, "duplicate-object", "%s: lid=%d returned twice", ctx, l)
		}
		seen[l] = true
		out = append(out, l)
	}
	return out
}

func (s *Seq) checkSetEq(got []int, exp map[int]bool, tag, ctx string) {
	gs := toSet(got)
	for _, l := range setList(exp) {
		if !gs[l] {
			s.fail(tag, "missing-object", "%s: lid=%d missing; got %v expected %v", ctx, l, setList(gs), setList(exp))
		}
	}
	for _, l := range got {
		if !exp[l] {
			s.fail(tag, "extra-object", "%s: lid=%d not expected; got %v expected %v", ctx, l, setList(gs), setList(exp))
		}
	}
}

// ---------------------------------------------------------------- read probes

func (s *Seq) probeCount(tag, ctx string) {
	n, err := s.db.Count(rec0())
	if err != nil {
		s.fail(tag, "count-error", "%s: Count failed: %v", ctx, err)
	}
	if n != len(s.M.Objs) {
		s.fail(tag, "wrong-count", "%s: Count=%d, expected %d", ctx, n, len(s.M.Objs))
	}
}

func (s *Seq) probeAll(tag, ctx string, assign bool) {
	var objs []sod.Object
	var err error
	if assign {
		var out []*shapes.Rec
		err = s.db.AssignAll(rec0(), &out)
		for _, r := range out {
			objs = append(objs, r)
		}
	} else {
		objs, err = s.db.All(rec0())
	}
	if err != nil {
		s.fail(tag, "all-error", "%s: All failed: %v", ctx, err)
	}
	got := s.recsOf(objs, tag, ctx+"/All")
	s.checkSetEq(got, toSet(s.M.Lids()), tag, ctx+"/All")
}

func (s *Seq) probeLive(lid int, tag, ctx string) {
	u := s.M.UUID[lid]
	o := rec0()
	if (s.step+lid)%2 == 0 {
		// the object given to Get identifies what to read: nothing else it holds counts
		Scribble(o)
		o.M = map[string]int{"left-over": 1}
		o.MS = map[string]shapes.Line{"left-over": {Name: "x"}}
	}
	o.Initialize(u)
	out, err := s.db.Get(o)
	if err != nil {
		s.fail(tag, "live-get-failed", "%s: Get of live lid=%d failed: %v", ctx, lid, err)
	}
	if l := s.recOf(out, tag, ctx+"/Get"); l != lid {
		s.fail(tag, "wrong-object", "%s: Get(lid=%d) returned lid=%d", ctx, lid, l)
	}
	out, err = s.db.GetByUUID(rec0(), u)
	if err != nil {
		s.fail(tag, "live-get-failed", "%s: GetByUUID of live lid=%d failed: %v", ctx, lid, err)
	}
	if l := s.recOf(out, tag, ctx+"/GetByUUID"); l != lid {
		s.fail(tag, "wrong-object", "%s: GetByUUID(lid=%d) returned lid=%d", ctx, lid, l)
	}
	o = rec0()
	o.Initialize(u)
	ok, err := s.db.Exist(o)
	if err != nil || !ok {
		t := tag
		if s.Cfg.Async {
			t = "async"
		}
		s.fail(t, "exist-false-for-live", "%s: Exist(lid=%d)=%v,%v for a stored object", ctx, lid, ok, err)
	}
}

func absentUUID(lid int) string { return fmt.Sprintf("00000000-0000-4000-8000-%012d", lid) }

// probeAbsentLid looks an absent identifier up twice through every path.
func (s *Seq) probeAbsentLid(lid int) { s.probeAbsentLidTag(lid, s.readTag()) }

func (s *Seq) probeAbsentLidTag(lid int, tag string) {
	if _, live := s.M.Objs[lid]; live {
		s.probeLive(lid, tag, "get")
		return
	}
	u, known := s.M.UUID[lid]
	if !known {
		u = absentUUID(lid)
	}
	for i := 0; i < 2; i++ {
		o := rec0()
		o.Initialize(u)
		_, err := s.db.Get(o)
		if err == nil {
			s.fail(tag, fmt.Sprintf("absent-get-succeeded:try%d", i+1), "Get of absent lid=%d (uuid %s) succeeded on try %d", lid, u, i+1)
		}
		if !IsNotFound(err) {
			s.fail(tag, "absent-get-wrong-error", "Get of absent lid=%d: error is not a not-found error: %v", lid, err)
		}
		_, err = s.db.GetByUUID(rec0(), u)
		if err == nil {
			s.fail(tag, fmt.Sprintf("absent-get-succeeded:try%d", i+1), "GetByUUID of absent lid=%d (uuid %s) succeeded on try %d", lid, u, i+1)
		}
		if !IsNotFound(err) {
			s.fail(tag, "absent-get-wrong-error", "GetByUUID of absent lid=%d: error is not a not-found error: %v", lid, err)
		}
		o = rec0()
		o.Initialize(u)
		ok, err := s.db.Exist(o)
		if ok || err != nil {
			s.fail(tag, "exist-true-for-absent", "Exist of absent lid=%d = %v,%v", lid, ok, err)
		}
	}
	s.stat("probe:absent-lookup-twice")
}

// lightReadsOf is the cheap read check after every write.
func (s *Seq) lightReadsOf(ctx string, lids []int) {
	s.softOracle("", func() { s.lightReadsOf0(ctx, lids) })
}

func (s *Seq) lightReadsOf0(ctx string, lids []int) {
	tag := s.readTag()
	s.probeCount(tag, ctx)
	for _, l := range lids {
		if _, live := s.M.Objs[l]; live {
			s.probeLive(l, tag, ctx)
		} else {
			s.probeAbsentLid(l)
		}
	}
	live := s.M.Lids()
	if len(live) > 0 {
		s.probeLive(live[s.prng.Intn(len(live))], tag, ctx)
	}
	if s.prng.Chance(1, 3) {
		s.probeAll(tag, ctx, s.prng.Bool())
	}
	// searches on the constrained fields of the touched objects
	cons := s.M.ConsPaths()
	if len(cons) > 0 {
		for i := 0; i < 2; i++ {
			p := cons[s.prng.Intn(len(cons))]
			c := GenCmp(s.prng, s.Pools, p)
			s.checkSearch(&Query{First: c}, []string{"len", "collect"}[s.prng.Intn(2)], 0, "", ctx)
		}
	}
}

func (s *Seq) lightReads(ctx string) { s.lightReadsOf(ctx, nil) }

// ---------------------------------------------------------------- search probes

func fieldVals(m *model.Model, lids []int, path string) []model.NVal {
	out := make([]model.NVal, len(lids))
	for i, l := range lids {
		out[i] = m.FieldOf(l, path)
	}
	return out
}

func (s *Seq) checkOrder(lids []int, path string, reverse bool, ctx string) {
	v := fieldVals(s.M, lids, path)
	for i := 1; i < len(v); i++ {
		c := model.Cmp(v[i-1], v[i])
		if (!reverse && c < 0) || (reverse && c > 0) {
			s.fail("order", "not-monotonic", "%s: result not ordered by %s (reverse=%v): %v", ctx, path, reverse, v)
		}
	}
}

// checkSearch evaluates one query on the implementation and on the model.
func (s *Seq) checkSearch(q *Query, mode string, limit int, tagOv, ctx string) {
	exp, expErr := evalQuery(s.M, q)
	tag := s.searchTag(q, tagOv)
	ctx = ctx + "/" + q.String() + "/" + mode
	sr := s.buildSearch(q)
	s.stat("search:" + mode)
	if expErr != "" {
		s.stat("search-error-expected:" + expErr)
		if sr.Err() == nil {
			// on an empty collection an empty answer is also a valid result;
			// so it is, always, for a pattern match on a non-string field
			if len(s.M.Objs) == 0 || expErr == model.ERegexNonString {
				s.loose("bad-args-on-empty:"+expErr+"|"+q.String(), "empty-result")
				if objs, err := sr.Collect(); err != nil || len(objs) != 0 {
					s.fail("args", "bad-args-yield-objects", "%s: unevaluable query returned %d objects, err=%v", ctx, len(objs), err)
				}
				return
			}
			s.fail("args", "bad-args-no-error:"+expErr, "%s: expected error class %s, search reports none (Len=%d)", ctx, expErr, sr.Len())
		}
		if len(s.M.Objs) == 0 {
			s.loose("bad-args-on-empty:"+expErr+"|"+q.String(), "error")
		}
		if objs, err := sr.Collect(); err == nil || len(objs) != 0 {
			s.fail("args", "errored-search-yields-objects", "%s: search with Err()=%v collected %d objects, err=%v", ctx, sr.Err(), len(objs), err)
		}
		if expErr != model.EBadRegex && expErr != model.EAnyErr && expErr != model.ERegexNonString {
			if got := ErrClass(sr.Err()); got != expErr {
				s.fail("args", "wrong-arg-error-class:"+expErr+":"+got, "%s: expected error class %s, got %v", ctx, expErr, sr.Err())
			}
		}
		return
	}
	if sr.Err() != nil {
		s.fail(tag, "search-error:"+ErrClass(sr.Err()), "%s: unexpected search error: %v", ctx, sr.Err())
	}
	if sr.Len() != len(exp) {
		s.fail(tag, "wrong-len", "%s: Len=%d, expected %d %v", ctx, sr.Len(), len(exp), setList(exp))
	}
	ord := s.orderedBy(q)
	switch mode {
	case "len":
	case "collect", "assign", "reverse":
		if mode == "reverse" {
			sr.Reverse()
		}
		var objs []sod.Object
		var err error
		if mode == "assign" {
			var out []*shapes.Rec
			err = sr.Assign(&out)
			for _, r := range out {
				objs = append(objs, r)
			}
		} else {
			objs, err = sr.Collect()
		}
		if err != nil {
			s.fail(tag, "collect-error", "%s: collect failed: %v", ctx, err)
		}
		got := s.recsOf(objs, tag, ctx)
		s.checkSetEq(got, exp, tag, ctx)
		if ord != "" {
			s.checkOrder(got, ord, mode == "reverse", ctx)
			s.stat("order-checked")
		}
	case "limit", "revlimit":
		if mode == "revlimit" {
			sr.Reverse()
		}
		objs, err := sr.Limit(uint64(limit)).Collect()
		if err != nil {
			s.fail(tag, "collect-error", "%s: collect failed: %v", ctx, err)
		}
		got := s.recsOf(objs, tag, ctx)
		want := limit
		if len(exp) < want {
			want = len(exp)
		}
		if len(got) != want {
			s.fail("order", "wrong-limit-count", "%s: Limit(%d) returned %d objects of %d matches", ctx, limit, len(got), len(exp))
		}
		for _, l := range got {
			if !exp[l] {
				s.fail(tag, "extra-object", "%s: lid=%d is not a match", ctx, l)
			}
		}
		if ord != "" {
			s.checkOrder(got, ord, mode == "revlimit", ctx)
			s.checkTop(got, exp, ord, mode == "revlimit", ctx)
			s.stat("limit-checked")
		}
		// a search is a value: collecting it again returns the same objects
		again, err := sr.Collect()
		if err != nil || len(again) != len(objs) {
			s.fail("order", "second-collect-differs", "%s: Limit(%d) collected %d objects, collecting the same search again %d (%v)", ctx, limit, len(objs), len(again), err)
		}
		for i := range again {
			if s.recOf(again[i], tag, ctx) != got[i] {
				s.fail("order", "second-collect-differs", "%s: the second collection of the same search returns other objects", ctx)
			}
		}
	case "expects":
		// the expected-count helpers: right count passes, wrong count poisons the search
		n := len(exp)
		if e := s.buildSearch(q).Expects(n).Err(); e != nil {
			s.fail(tag, "expects-right-count-failed", "%s: Expects(%d) on %d matches: %v", ctx, n, n, e)
		}
		bad := s.buildSearch(q).Expects(n + 1)
		objs, err := bad.Collect()
		if !errors.Is(bad.Err(), sod.ErrUnexpectedNumberOfResults) || err == nil || len(objs) != 0 {
			s.fail("args", "expects-wrong-count-not-refused", "%s: Expects(%d) on %d matches: Err()=%v, Collect returned %d objects, err=%v", ctx, n+1, n, bad.Err(), len(objs), err)
		}
		z := s.buildSearch(q).ExpectsZeroOrN(n + 1)
		if n == 0 && z.Err() != nil {
			s.fail(tag, "expectszero-on-empty-failed", "%s: ExpectsZeroOrN on an empty result: %v", ctx, z.Err())
		}
		if n > 0 && !errors.Is(z.Err(), sod.ErrUnexpectedNumberOfResults) {
			s.fail("args", "expectszero-wrong-count-not-refused", "%s: ExpectsZeroOrN(%d) on %d matches: %v", ctx, n+1, n, z.Err())
		}
		x := s.buildSearch(q).Operation("xor", q.First.Path, q.First.Op, q.First.V.Go())
		if objs, err := x.Collect(); !errors.Is(x.Err(), sod.ErrUnknownOperator) || err == nil || len(objs) != 0 {
			s.fail("args", "unknown-logical-operator-not-refused", "%s: Operation(xor): Err()=%v, %d objects, err=%v", ctx, x.Err(), len(objs), err)
		}
		s.stat("expects-checked")
	case "assignunique", "assignone":
		o := rec0() // the target must point to a non-nil Object (documented contract)
		var err error
		if mode == "assignunique" {
			err = sr.AssignUnique(&o)
		} else {
			err = sr.AssignOne(&o)
		}
		switch {
		case len(exp) == 0:
			if !sod.IsNoObjectFound(err) {
				s.fail("order", "one-no-object-error", "%s: %s on an empty result: %v", ctx, mode, err)
			}
		case len(exp) > 1 && mode == "assignunique":
			if !errors.Is(err, sod.ErrUnexpectedNumberOfResults) {
				s.fail("args", "assignunique-many-not-refused", "%s: AssignUnique on %d matches: %v", ctx, len(exp), err)
			}
		default:
			if err != nil {
				s.fail(tag, "collect-error", "%s: %s failed: %v", ctx, mode, err)
			}
			l := s.recOf(o, tag, ctx)
			if !exp[l] {
				s.fail(tag, "extra-object", "%s: %s returned lid=%d which is not a match", ctx, mode, l)
			}
			if ord != "" {
				s.checkTop([]int{l}, exp, ord, false, ctx)
			}
		}
		s.stat("assignone-checked")
	case "one":
		o, err := sr.One()
		if len(exp) == 0 {
			if !sod.IsNoObjectFound(err) {
				s.fail("order", "one-no-object-error", "%s: One on empty result: %v, %v", ctx, o, err)
			}
			return
		}
		if err != nil {
			s.fail(tag, "collect-error", "%s: One failed: %v", ctx, err)
		}
		l := s.recOf(o, tag, ctx)
		if !exp[l] {
			s.fail(tag, "extra-object", "%s: One returned lid=%d which is not a match", ctx, l)
		}
		if ord != "" {
			s.checkTop([]int{l}, exp, ord, false, ctx)
		}
		// One does not consume the search
		if n := sr.Len(); n != len(exp) {
			s.fail(tag, "wrong-len", "%s: Len after One is %d, expected %d", ctx, n, len(exp))
		}
		all, err := sr.Collect()
		if err != nil || len(all) != len(exp) {
			s.fail("order", "collect-after-one", "%s: Collect after One on the same search returned %d objects of %d matches (%v)", ctx, len(all), len(exp), err)
		}
	}
}

// checkTop: the values of got are the top (bottom if reverse) len(got) values
// of the sorted match list, compared as multisets.
func (s *Seq) checkTop(got []int, exp map[int]bool, path string, reverse bool, ctx string) {
	all := fieldVals(s.M, setList(exp), path)
	sort.Slice(all, func(i, j int) bool {
		if reverse {
			return model.Cmp(all[i], all[j]) < 0
		}
		return model.Cmp(all[i], all[j]) > 0
	})
	gv := fieldVals(s.M, got, path)
	sort.Slice(gv, func(i, j int) bool {
		if reverse {
			return model.Cmp(gv[i], gv[j]) < 0
		}
		return model.Cmp(gv[i], gv[j]) > 0
	})
	for i := range gv {
		if model.Cmp(gv[i], all[i]) != 0 {
			s.fail("order", "limit-not-a-prefix", "%s: limited result %v is not the first %d of the ordered matches %v", ctx, gv, len(gv), all)
		}
	}
}

func (s *Seq) probeAssignIndex(path, ctx, tagOv string) {
	lids := s.M.Lids()
	exp := fieldVals(s.M, lids, path)
	sort.Slice(exp, func(i, j int) bool { return model.Cmp(exp[i], exp[j]) > 0 })
	var got []model.NVal
	var err error
	switch typeOfPath(path) {
	case "int8", "int16", "int32", "int64", "int":
		var t []int64
		err = s.db.AssignIndex(rec0(), path, &t)
		for _, x := range t {
			got = append(got, model.NVal{K: 'i', I: x})
		}
	case "time":
		var t []time.Time
		err = s.db.AssignIndex(rec0(), path, &t)
		for _, x := range t {
			got = append(got, model.NVal{K: 'i', I: x.UnixNano()})
		}
	case "uint8", "uint16", "uint32", "uint64", "uint":
		var t []uint64
		err = s.db.AssignIndex(rec0(), path, &t)
		for _, x := range t {
			got = append(got, model.NVal{K: 'u', U: x})
		}
	case "float32", "float64":
		var t []float64
		err = s.db.AssignIndex(rec0(), path, &t)
		for _, x := range t {
			got = append(got, model.NVal{K: 'f', F: x})
		}
	default:
		var t []string
		err = s.db.AssignIndex(rec0(), path, &t)
		for _, x := range t {
			got = append(got, model.NVal{K: 's', S: x})
		}
	}
	tag := "order"
	if tagOv != "" {
		tag = tagOv
	}
	if err != nil {
		s.fail(tag, "assignindex-error", "%s: AssignIndex(%s) failed: %v", ctx, path, err)
	}
	if len(got) != len(exp) {
		s.fail(tag, "assignindex-wrong-len", "%s: AssignIndex(%s) returned %d values, expected %d", ctx, path, len(got), len(exp))
	}
	for i := range got {
		if model.Cmp(got[i], exp[i]) != 0 {
			s.fail(tag, "assignindex-wrong-values", "%s: AssignIndex(%s) = %v, expected %v", ctx, path, got, exp)
		}
	}
	s.stat("assignindex-checked")
}

func (s *Seq) probeControl(ctx string) { s.softOracle("", func() { s.probeControl0(ctx) }) }

func (s *Seq) probeControl0(ctx string) {
	if !s.quiescent {
		return
	}
	if err := s.db.Control(); err != nil {
		s.fail("control", "false-positive", "%s: Control reports %v on a healthy database", ctx, err)
	}
	s.stat("control-checked")
}

// ---------------------------------------------------------------- plans

// genPlan draws the probes of a sweep.
func (s *Seq) genPlan(r *simrt.Rand, nq int) []Probe {
	var plan []Probe
	plan = append(plan, Probe{Kind: "count"}, Probe{Kind: "all"}, Probe{Kind: "assignall"})
	for _, l := range s.M.Lids() {
		plan = append(plan, Probe{Kind: "get", Lid: l})
	}
	n := 0
	for _, l := range sortedInts(s.M.UUID) {
		if _, live := s.M.Objs[l]; !live && n < 3 {
			plan = append(plan, Probe{Kind: "absent", Lid: l})
			n++
		}
	}
	plan = append(plan, Probe{Kind: "absent", Lid: 5000 + r.Intn(3)})
	// searches: a few paths x every operator x probes
	paths := s.M.ConsPaths()
	var chosen []string
	for i := 0; i < 2 && len(paths) > 0; i++ {
		chosen = append(chosen, paths[r.Intn(len(paths))])
	}
	chosen = append(chosen, shapes.RecPaths[r.Intn(len(shapes.RecPaths))])
	modes := []string{"len", "collect", "assign", "reverse", "limit", "revlimit", "one", "expects", "assignunique", "assignone"}
	for _, p := range chosen {
		for _, op := range model.Ops {
			if op == "~=" && typeOfPath(p) != "string" {
				continue
			}
			for k := 0; k < 2; k++ {
				c := GenCmp(r, s.Pools, p)
				if !(op == "~=" && c.Op == "~=") {
					if op == "~=" {
						c.V = Val{T: "string", S: []string{"^a", "(?i)b", ".", "^$"}[r.Intn(4)]}
					}
					c.Op = op
				}
				m := modes[r.Intn(len(modes))]
				plan = append(plan, Probe{Kind: "search", Q: &Query{First: c}, Mode: m, Limit: s.genLimit(r)})
			}
		}
	}
	g := &gen{r: r, cfg: s.Cfg, pools: s.Pools, prof: s.Prof}
	for i := 0; i < nq; i++ {
		q := g.query(false)
		plan = append(plan, Probe{Kind: "search", Q: q, Mode: modes[r.Intn(len(modes))], Limit: s.genLimit(r)})
	}
	for i := 0; i < 3; i++ {
		plan = append(plan, Probe{Kind: "search", Q: &Query{First: s.genBadCmp(r)}, Mode: "collect"})
	}
	for _, p := range paths {
		if s.Cfg.Cons[p].Indexed() {
			plan = append(plan, Probe{Kind: "assignindex", Path: p})
		}
	}
	plan = append(plan, Probe{Kind: "control"})
	return plan
}

func (s *Seq) genLimit(r *simrt.Rand) int {
	n := len(s.M.Objs)
	return []int{0, 1, 2, n - 1, n, n + 1, 1 << 30}[r.Intn(7)]
}

func sortedInts(m map[int]string) []int {
	out := make([]int, 0, len(m))
	for k := range m {
		out = append(out, k)
	}
	sort.Ints(out)
	return out
}

// runPlan executes the probes; tagOv overrides the oracle tag (reopen, ...).
func (s *Seq) runPlan(plan []Probe, tagOv, ctx string) {
	s.softOracle("", func() { s.runPlan0(plan, tagOv, ctx) })
}

func (s *Seq) runPlan0(plan []Probe, tagOv, ctx string) {
	rt := tagOv
	if rt == "" {
		rt = s.readTag()
	}
	for _, p := range plan {
		switch p.Kind {
		case "count":
			s.probeCount(rt, ctx)
		case "all":
			s.probeAll(rt, ctx, false)
		case "assignall":
			s.probeAll(rt, ctx, true)
		case "get":
			if _, live := s.M.Objs[p.Lid]; live {
				s.probeLive(p.Lid, rt, ctx)
			}
		case "absent":
			s.probeAbsentLidTag(p.Lid, rt)
		case "search":
			if p.Limit < 0 {
				p.Limit = 0
			}
			s.checkSearch(p.Q, p.Mode, p.Limit, tagOv, ctx)
		case "assignindex":
			s.probeAssignIndex(p.Path, ctx, tagOv)
		case "control":
			s.probeControl(ctx)
		}
	}
	s.stat("sweep")
}

func (s *Seq) fullSweep(ctx string) {
	plan := s.genPlan(s.prng.Fork(2), 8)
	s.runPlan(plan, "", ctx)
	s.checkLayout(ctx)
	if s.Prop == "C02" || s.Prop == "C13" {
		s.stampProbe(ctx)
	}
}

// genBadCmp draws a comparison with exactly one defect: unknown field,
// unknown operator, mistyped / unsupported value, or invalid pattern.
func (s *Seq) genBadCmp(r *simrt.Rand) Cmp {
	all := shapes.RecPaths
	path := all[r.Intn(len(all))]
	if cons := s.M.ConsPaths(); len(cons) > 0 && r.Bool() {
		path = cons[r.Intn(len(cons))]
	}
	good := GenProbe(r, s.Pools, path)
	isStr := typeOfPath(path) == "string"
	switch r.Intn(6) {
	case 5:
		// a pattern match on a field that is not a string, with a value of the field's own type
		for try := 0; try < 8 && isStr; try++ {
			path = all[r.Intn(len(all))]
			isStr = typeOfPath(path) == "string"
		}
		if !isStr {
			return Cmp{Path: path, Op: "~=", V: GenProbe(r, s.Pools, path)}
		}
		return Cmp{Path: "Nope", Op: "=", V: Val{T: "string", S: "a"}}
	case 0:
		f := []string{"Nope", "In.Nope", "S.x", "P.Nope.N", "", "emb.E", "P", "In", "Emb", "Tags", "M", "L", "I8.x.y", "uuid", "Item.uuid", "PI.x", "In.N.x", "Emb.e", "P.S.x"}[r.Intn(19)]
		return Cmp{Path: f, Op: "=", V: Val{T: "string", S: "a"}}
	case 1:
		return Cmp{Path: path, Op: []string{"<>", "==", "", "=<", "like"}[r.Intn(5)], V: good}
	case 2:
		if isStr {
			return Cmp{Path: path, Op: "=", V: []Val{{T: "int", I: 1}, {T: "uint64", U: 1}, {T: "float64", F: 1}, {T: "time", I: 5}}[r.Intn(4)]}
		}
		alts := []Val{{T: "string", S: "1"}}
		switch good.T {
		case "time", "int", "int8", "int16", "int32", "int64":
			alts = append(alts, Val{T: "uint", U: 1}, Val{T: "float64", F: 1})
		case "float32", "float64":
			alts = append(alts, Val{T: "int", I: 1}, Val{T: "uint8", U: 1})
		default:
			alts = append(alts, Val{T: "int", I: 1}, Val{T: "float32", F: 1}, Val{T: "time", I: 1})
		}
		return Cmp{Path: path, Op: []string{"=", "<", ">="}[r.Intn(3)], V: alts[r.Intn(len(alts))]}
	case 3:
		return Cmp{Path: path, Op: "=", V: []Val{{T: "nil"}, {T: "bytes", S: "ab"}, {T: "bool", I: 1}}[r.Intn(3)]}
	}
	if !isStr {
		path = "S"
	}
	return Cmp{Path: path, Op: "~=", V: Val{T: "string", S: []string{"(", "[a", "a{2,1}", "(?P<n"}[r.Intn(4)]}}
}

func (s *Seq) loose(key, val string) {
	if s.Loose != nil {
		s.Loose[fmt.Sprintf("%s|step%d", key, s.step)] = val
	}
}
