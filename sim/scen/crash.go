package scen

import (
	"errors"
	"fmt"
	"io/fs"
	"sort"

	"github.com/0xrawsec/sod"

	"verifsim/model"
	"verifsim/shapes"
	"verifsim/simrt"
)

// ModelFromFiles derives a model from the object files of the collection
// directory: what an independent reader of the directory sees.
func ModelFromFiles(f *simrt.FS, cfg *Config, root string) (*model.Model, error) {
	dir := CollDir(root, cfg.Lower)
	objs, _, err := DiskObjects(f, dir, cfg.Ext, cfg.Compress)
	if err != nil {
		return nil, err
	}
	m := model.New(cfg.Cons)
	var us []string
	for u := range objs {
		us = append(us, u)
	}
	sort.Strings(us)
	for _, u := range us {
		r := objs[u]
		if _, dup := m.Objs[r.Lid]; dup {
			return nil, fmt.Errorf("two files hold logical object %d", r.Lid)
		}
		m.Objs[r.Lid] = r
		m.UUID[r.Lid] = u
	}
	return m, nil
}

// subCheck runs an observation sweep of handle db against model m and returns
// the first divergence instead of unwinding the run.
func (s *Seq) subCheck(db *sod.DB, m *model.Model, seed uint64, nq int, ctx string, control bool) *Violation {
	prof := *s.Prof
	prof.Scribble = false
	sub := &Seq{W: s.W, Cfg: s.Cfg, Prof: &prof, Pools: s.Pools, Root: s.Root, db: db, M: m,
		held: map[int]*heldSearch{}, issued: map[string]bool{}, Stats: s.Stats, step: s.step, curOp: s.curOp, quiescent: control}
	sub.prng = simrt.NewRand(seed)
	sub.guard(func() {
		plan := sub.genPlan(sub.prng.Fork(1), nq)
		sub.runPlan(plan, "", ctx)
	})
	return sub.V
}

// objectsOldOrNew: every object of got equals its version in before or after
// (or is absent if it is absent in one of them).
func objectsOldOrNew(got, before, after *model.Model) error {
	lids := map[int]bool{}
	for l := range got.Objs {
		lids[l] = true
	}
	for l := range before.Objs {
		lids[l] = true
	}
	for l := range after.Objs {
		lids[l] = true
	}
	var ls []int
	for l := range lids {
		ls = append(ls, l)
	}
	sort.Ints(ls)
	for _, l := range ls {
		g, gok := got.Objs[l]
		b, bok := before.Objs[l]
		a, aok := after.Objs[l]
		if !gok {
			if bok && aok {
				return fmt.Errorf("object lid=%d is gone although it exists before and after the interrupted call", l)
			}
			continue
		}
		gj := model.JSON(g)
		if bok && model.JSON(b) == gj && got.UUID[l] == before.UUID[l] {
			continue
		}
		// an object created by the interrupted call receives its UUID in that call:
		// a re-execution (fault scenarios) legitimately draws another one
		if aok && model.JSON(a) == gj && (!bok || after.UUID[l] == "" || got.UUID[l] == after.UUID[l]) {
			continue
		}
		return fmt.Errorf("object lid=%d holds %s which is neither its value before nor after the interrupted call", l, gj)
	}
	return nil
}

func modelsEqual(a, b *model.Model) bool {
	if len(a.Objs) != len(b.Objs) {
		return false
	}
	for l, o := range a.Objs {
		p, ok := b.Objs[l]
		if !ok || model.JSON(o) != model.JSON(p) {
			return false
		}
	}
	return true
}

// crashTracker records, per operation, what is needed to materialise every
// crash state of it afterwards.
type crashTracker struct {
	snap   *simrt.Snapshot
	logPos int
	before *model.Model
	States int
	maxPer int
}

// RunCrash is the C05 scenario: the history machine in sync mode with the
// file-system log on; after every operation each prefix of its log segment
// (and torn splits of its writes) is materialised and recovery is checked.
func RunCrash(p Params) *Result {
	prof := *Profiles["C05"]
	r := simrt.NewRand(simrt.Mix(p.Seed, 11))
	if r.Fork(99).Chance(1, 3) {
		// asynchronous mode: the flusher writes between and inside the client's calls;
		// what was not flushed may be lost, but nothing may be unreadable or stale unnoticed
		prof = *Profiles["C05A"]
	}
	cfg := GenConfig(r.Fork(1), &prof)
	pools := GenPools(r.Fork(2), 3)
	ops := GenOps(r.Fork(3), cfg, pools, &prof)
	w := simrt.NewWorld(simrt.Mix(p.Seed, 12))
	w.FS.LogOn = true
	skip := map[int]bool{}
	for _, i := range p.Skip {
		skip[i] = true
	}
	var kept []Op
	for i, o := range ops {
		if !skip[i] {
			kept = append(kept, o)
		}
	}
	s := NewSeq(w, cfg, &prof, pools, kept)
	s.everAsync = cfg.Async
	tr := &crashTracker{maxPer: 60}
	only := -1
	if v, ok := p.Extra["only_op"]; ok {
		only = v
	}
	s.Hooks.BeforeOp = func(s *Seq, i int, op *Op) {
		tr.snap = w.FS.Snapshot()
		tr.logPos = len(w.FS.Log)
		tr.before = s.M.CopyState()
	}
	s.Hooks.AfterOp = func(s *Seq, i int, op *Op) {
		if only >= 0 && only != i {
			return
		}
		entries := append([]simrt.LogEntry(nil), w.FS.Log[tr.logPos:]...)
		if len(entries) == 0 {
			return
		}
		s.crashStates(tr, entries, op)
	}
	cfg0 := *cfg
	s.Run()
	res := &Result{Params: p, V: s.V, Digest: w.Digest(), Class: cfg0.Class(), Steps: w.Steps,
		SimMs: int64(w.Now() / 1e6), NOps: len(kept), Stats: s.Stats, Config: cfg0.String(), Cases: tr.States,
		Faults: map[string]int{"crash": s.Stats["fault:crash"], "torn-write": s.Stats["fault:torn"]}, Known: s.KnownSample}
	if s.V != nil {
		for i, o := range ops {
			if !skip[i] {
				res.Ops = append(res.Ops, fmt.Sprintf("#%d %s", i, o.String()))
			}
		}
	}
	if len(kept) > 0 {
		res.Sample = fmt.Sprintf("%d crash states of history starting with %.200s", tr.States, kept[0].String())
	}
	return res
}

type crashPoint struct {
	k    int // entries[:k] applied
	torn int // >=0: additionally the first torn bytes of entries[k] (a write)
}

func (s *Seq) crashStates(tr *crashTracker, entries []simrt.LogEntry, op *Op) {
	var points []crashPoint
	for k := 0; k <= len(entries); k++ {
		points = append(points, crashPoint{k: k, torn: -1})
		if k < len(entries) && entries[k].Kind == "write" {
			n := len(entries[k].Data)
			for _, b := range []int{1, n / 2, n - 1} {
				if b > 0 && b < n {
					points = append(points, crashPoint{k: k, torn: b})
				}
			}
		}
	}
	if len(points) > tr.maxPer {
		// keep the boundaries, sample the rest
		keep := []crashPoint{points[0], points[len(points)-1]}
		perm := s.prng.Perm(len(points) - 2)
		for _, i := range perm[:tr.maxPer-2] {
			keep = append(keep, points[1+i])
		}
		points = keep
	}
	live := s.W.FS.Snapshot()
	logOn := s.W.FS.LogOn
	s.W.FS.LogOn = false
	// nothing else runs while the disk is swapped: not the flusher of the main
	// handle, nor the flushers the fresh handles start (unwound afterwards)
	s.W.Exclusive(true)
	mark := s.W.TaskMark()
	defer func() {
		s.W.KillSince(mark)
		s.W.Exclusive(false)
		s.W.FS.Restore(live)
		s.W.FS.LogOn = logOn
	}()
	after := s.M
	for _, cp := range points {
		s.W.FS.Restore(tr.snap)
		for _, e := range entries[:cp.k] {
			s.W.FS.Apply(e)
		}
		desc := fmt.Sprintf("crash after %d of %d file mutations of %s", cp.k, len(entries), op.K)
		if cp.torn >= 0 {
			e := entries[cp.k]
			e.Data = e.Data[:cp.torn]
			s.W.FS.Apply(e)
			desc = fmt.Sprintf("crash inside file mutation %d of %d of %s (write torn after %d of %d bytes)", cp.k+1, len(entries), op.K, cp.torn, len(entries[cp.k].Data))
			s.stat("fault:torn")
		} else {
			s.stat("fault:crash")
		}
		if cp.k < len(entries) {
			desc += "; next: " + entries[cp.k].Kind + " " + entries[cp.k].Path
		}
		if cp.k > 0 {
			desc += "; last: " + entries[cp.k-1].Kind + " " + entries[cp.k-1].Path
		}
		tr.States++
		s.tolerateKnown(func() {
			s.checkRecovery(desc, tr.before, after, cp.k == len(entries), opClass(tr.before, after)+":"+windowOf(entries, cp))
		})
	}
}

// opClass classifies the interrupted call by what it does to stored objects.
func opClass(before, after *model.Model) string {
	upd, ins, del := false, false, false
	for l, a := range after.Objs {
		if b, ok := before.Objs[l]; !ok {
			ins = true
		} else if model.JSON(a) != model.JSON(b) {
			upd = true
		}
	}
	for l := range before.Objs {
		if _, ok := after.Objs[l]; !ok {
			del = true
		}
	}
	switch {
	case upd:
		return "update"
	case ins && del:
		return "insert+delete"
	case ins:
		return "insert"
	case del:
		return "delete"
	}
	return "none"
}

// windowOf names the crash window for signatures.
func windowOf(entries []simrt.LogEntry, cp crashPoint) string {
	name := func(e simrt.LogEntry) string {
		k := e.Kind
		switch {
		case len(e.Path) >= 11 && e.Path[len(e.Path)-11:] == "schema.json":
			return k + "-schema"
		case len(e.Path) > 4 && (e.Path[len(e.Path)-4:] == ".tmp" || containsTmp(e.Path)):
			return k + "-tmp"
		}
		return k + "-object"
	}
	w := ""
	if cp.torn >= 0 {
		return "torn-" + name(entries[cp.k])
	}
	if cp.k > 0 {
		w = "after-" + name(entries[cp.k-1])
	} else {
		w = "start"
	}
	if cp.k < len(entries) {
		w += "/before-" + name(entries[cp.k])
	} else {
		w += "/end"
	}
	return w
}

func containsTmp(p string) bool {
	for i := 0; i+3 < len(p); i++ {
		if p[i:i+4] == "tmp-" || p[i:i+4] == ".tmp" {
			return true
		}
	}
	return false
}

// checkRecovery opens a fresh handle on the materialised disk and applies the
// C05 oracle.
func (s *Seq) checkRecovery(desc string, before, after *model.Model, complete bool, window string) {
	db := sod.Open(s.Root)
	_, err := db.Schema(rec0())
	detected := false
	switch {
	case err == nil:
	case sod.IsIndexCorrupted(err):
		detected = true
		s.stat("probe:crash-detected-as-corruption")
	default:
		s.fail("crash", "unreadable-after-crash:"+window, "%s: reopening fails with an error that is not index corruption: %v", desc, err)
	}
	files, ferr := ModelFromFiles(s.W.FS, s.Cfg, s.Root)
	if ferr != nil {
		s.fail("crash", "object-file-unreadable:"+window, "%s: an object file is left unreadable: %v", desc, ferr)
	}
	if s.Cfg.Async || s.everAsync {
		// asynchronous writes: a file holds some accepted version of its object
		for _, l := range files.Lids() {
			_, liveB := before.Objs[l]
			_, liveA := after.Objs[l]
			if !liveB && !liveA {
				s.fail("crash", "deleted-object-on-disk:"+window, "%s: lid=%d was deleted before this call, yet its file exists", desc, l)
			}
			if !s.History[l][model.JSON(files.Objs[l])] {
				s.fail("crash", "file-holds-never-accepted-value:"+window, "%s: the file of lid=%d holds %s, which was never an accepted value of that object", desc, l, model.JSON(files.Objs[l]))
			}
		}
		s.stat("probe:async-crash-state")
	} else {
		// every acknowledged operation is reflected; the interrupted one is
		// applied to each object entirely or not at all
		if e := objectsOldOrNew(files, before, after); e != nil {
			s.fail("crash", "object-neither-old-nor-new:"+window, "%s: %v", desc, e)
		}
		if complete && !modelsEqual(files, after) {
			s.fail("crash", "completed-call-not-on-disk", "%s: the call completed but the files do not hold its result", desc)
		}
	}
	if !detected {
		if cerr := db.Control(); cerr != nil {
			if !sod.IsIndexCorrupted(cerr) {
				s.fail("crash", "control-error:"+window, "%s: Control fails with %v", desc, cerr)
			}
			detected = true
		}
	}
	if !detected {
		s.stat("probe:crash-state-loads-clean")
		if v := s.subCheck(db, files, s.prng.Uint64(), 3, "after-crash", true); v != nil {
			s.fail("crash", "stale-index-unnoticed:"+window+":"+v.Sig, "%s: the directory loads without any corruption report, but the index disagrees with the files: %s", desc, v.Msg)
		}
		db.Close()
		return
	}
	if rerr := db.Repair(rec0()); rerr != nil {
		if (s.Cfg.Async || s.everAsync) && sod.IsUnique(rerr) && filesBreakUniqueness(files) {
			// asynchronous flush interrupted between two objects: the files are a mix of
			// versions accepted at different moments and hold the same unique value twice
			s.fail("crash", "repair-failed-unique-mix-after-async-flush", "%s: the flusher was interrupted between two object files; the files now hold one unique value twice (versions accepted at different moments) and Repair gives up: %v", desc, rerr)
		}
		s.fail("crash", "repair-failed:"+window, "%s: Repair fails: %v", desc, rerr)
	}
	if cerr := db.Control(); cerr != nil {
		s.fail("crash", "control-fails-after-repair:"+window, "%s: Control still fails after Repair: %v", desc, cerr)
	}
	files2, ferr := ModelFromFiles(s.W.FS, s.Cfg, s.Root)
	if ferr != nil || !modelsEqual(files, files2) {
		s.fail("crash", "repair-modified-files:"+window, "%s: Repair changed object files (%v)", desc, ferr)
	}
	if v := s.subCheck(db, files, s.prng.Uint64(), 3, "after-repair", true); v != nil {
		s.fail("crash", "wrong-after-repair:"+window+":"+v.Sig, "%s: after Repair searches disagree with the files: %s", desc, v.Msg)
	}
	s.stat("probe:repaired-after-crash")
	db.Close()
}

var _ = errors.Is
var _ = fs.ErrNotExist
var _ = shapes.Derive

// Known holds the signature patterns of the findings listed in
// /verif/known_findings.txt (a trailing * matches any suffix). A fault state
// whose violation matches one is counted and the enumeration goes on, so that
// a listed finding never hides a different violation of the same run.
var Known []string

func MatchKnown(sig string) string {
	for _, k := range Known {
		if k == sig || (len(k) > 0 && k[len(k)-1] == '*' && len(sig) >= len(k)-1 && sig[:len(k)-1] == k[:len(k)-1]) {
			return k
		}
	}
	return ""
}

func (s *Seq) tolerateKnown(f func()) {
	defer func() {
		if r := recover(); r != nil {
			if _, ok := r.(stopRun); ok && s.V != nil {
				if k := MatchKnown(s.V.Sig); k != "" {
					s.stat("known:" + k)
					if s.KnownSample == nil {
						s.KnownSample = map[string]string{}
					}
					if _, ok := s.KnownSample[k]; !ok {
						s.KnownSample[k] = s.V.Sig + ": " + s.V.Msg
					}
					s.V = nil
					return
				}
			}
			panic(r)
		}
	}()
	f()
}

// filesBreakUniqueness: two files hold the same value in a unique field.
func filesBreakUniqueness(files *model.Model) bool {
	for _, l := range files.Lids() {
		if len(files.Conflicts(files.Objs[l], l)) > 0 {
			return true
		}
	}
	return false
}
