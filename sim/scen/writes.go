package scen

import (
	"encoding/json"
	"fmt"
	"math"

	"github.com/0xrawsec/sod"

	"verifsim/model"
	"verifsim/shapes"
)

type batchObj struct {
	item BatchItem
	obj  sod.Object
	rec  *shapes.Rec // nil for foreign
	exp  *shapes.Rec
	lid  int
	rep  bool // pointer repeated from an earlier item
	orig *batchObj
}

// opBatch executes InsertOrUpdateMany / InsertOrUpdateBulk.
func (s *Seq) opBatch(op *Op) {
	// build the objects; one identity per lid
	var objs []*batchObj
	byLid := map[int]*batchObj{}
	for _, it := range op.Batch {
		switch {
		case it.Foreign:
			objs = append(objs, &batchObj{item: it, obj: &shapes.Other{X: 1}})
		case it.SameAs > 0 && it.SameAs-1 < len(objs):
			prev := objs[it.SameAs-1]
			for prev.orig != nil {
				prev = prev.orig
			}
			objs = append(objs, &batchObj{item: it, obj: prev.obj, rec: prev.rec, lid: prev.lid, rep: prev.rec != nil, orig: prev})
		case it.Rec == nil:
			continue
		default:
			if prev, dup := byLid[it.Lid]; dup {
				objs = append(objs, &batchObj{item: it, obj: prev.obj, rec: prev.rec, lid: prev.lid, rep: true, orig: prev})
				continue
			}
			nan := ""
			if it.NaN {
				nan = "nan"
			}
			r := s.build(it.Lid, it.Rec, nan)
			b := &batchObj{item: it, obj: r, rec: r, lid: it.Lid}
			byLid[it.Lid] = b
			objs = append(objs, b)
		}
	}
	chunk := len(objs)
	csize := op.Chunk // what the call is given
	if op.K == "bulk" && op.Chunk >= 1 {
		chunk = op.Chunk
	}
	if op.K == "bulk" && !op.Flag && csize < 1 {
		csize, chunk = 1, 1 // histories recorded before chunk size 0 was generated
	}
	if chunk < 1 {
		chunk = 1
	}
	// model prediction, chunk by chunk
	expN := 0
	var failClasses map[string]bool
	ambiguous := false
	m := s.M.CopyState()
	var accepted []*batchObj
	for i := 0; i < len(objs) || i == 0; i += chunk {
		j := i + chunk
		if j > len(objs) {
			j = len(objs)
		}
		classes, amb := s.predictChunk(m, objs[i:j])
		if len(classes) > 0 {
			failClasses = classes
			ambiguous = amb
			break
		}
		for _, b := range objs[i:j] {
			if !b.rep {
				m.Put(b.lid, b.exp)
			}
			accepted = append(accepted, b)
		}
		expN += j - i
		if len(objs) == 0 {
			break
		}
	}
	if len(objs) > 0 && len(byLid) > 1 {
		s.stat("probe:batch-multi")
	}
	// execute
	list := make([]sod.Object, len(objs))
	for i, b := range objs {
		list[i] = b.obj
	}
	s.hookBegin()
	var n int
	var err error
	if op.K == "bulk" {
		ch := make(chan sod.Object, len(list)+1)
		for _, o := range list {
			ch <- o
		}
		close(ch)
		n, err = s.db.InsertOrUpdateBulk(ch, csize)
	} else {
		n, err = s.db.InsertOrUpdateMany(list...)
	}
	what := fmt.Sprintf("%s(%d objects, chunk %d)", op.K, len(list), chunk)
	if failClasses == nil {
		if err != nil {
			tag := "batch"
			if ErrClass(err) == model.EUnique {
				tag = "batch"
			}
			s.fail(tag, "legit-batch-rejected:"+ErrClass(err), "%s: a legitimate batch was rejected: n=%d err=%v", what, n, err)
		}
		if n != expN {
			s.fail("batch", "wrong-count", "%s: reported n=%d, expected %d", what, n, expN)
		}
	} else if ambiguous && err == nil {
		// the only conflict is with a stored value that the batch itself
		// replaces: accepting the batch in order is also a valid reading
		for i := 0; i < len(objs); i++ {
			b := objs[i]
			if !b.rep {
				m.Put(b.lid, b.exp)
			}
		}
		accepted = objs
		expN = len(objs)
		if n != expN {
			s.fail("batch", "wrong-count", "%s: reported n=%d, expected %d", what, n, expN)
		}
		failClasses = nil
	} else {
		s.stat("probe:batch-rejected:" + classList(failClasses))
		if err == nil {
			s.fail("batch", "bad-batch-accepted:"+classList(failClasses), "%s: batch must fail (%s) but returned n=%d err=nil", what, classList(failClasses), n)
		}
		if n != expN {
			s.fail("batch", "wrong-count-on-failure", "%s: failed batch reported n=%d, expected %d (err=%v)", what, n, expN, err)
		}
		got := ErrClass(err)
		if !failClasses[got] && !failClasses[model.EWrongType] && !(failClasses[model.EUnserial] && got == model.EAnyErr) {
			s.fail("batch", "wrong-error-class:"+classList(failClasses)+":"+got, "%s: expected class %s, got %v", what, classList(failClasses), err)
		}
	}
	// commit the model: exactly the accepted chunks
	var touched []int
	for _, b := range accepted {
		if b.rec == nil || b.rep {
			continue
		}
		s.checkUUIDAfterWrite(b.rec, b.lid)
		b.exp.Initialize(b.rec.UUID())
		s.modelPut(b.lid, b.exp)
		touched = append(touched, b.lid)
	}
	var exps []*shapes.Rec
	for _, b := range accepted {
		if b.exp != nil {
			exps = append(exps, b.exp)
		}
	}
	s.bulkHooks = op.K == "bulk" && len(objs) > chunk
	s.checkHooks(exps, failClasses == nil, failClasses)
	s.bulkHooks = false
	for _, b := range objs {
		if b.rec != nil {
			seen := false
			for _, t := range touched {
				if t == b.lid {
					seen = true
				}
			}
			if !seen {
				touched = append(touched, b.lid)
			}
			if s.Prof.Scribble && !b.rep {
				Scribble(b.rec)
			}
		}
	}
	if len(objs) == 0 {
		// an empty batch returns before anything is written or committed
		s.rejected = false
	} else {
		s.afterWrite(failClasses == nil)
	}
	if failClasses != nil && expN > 0 {
		s.rejected = false // part of a bulk was legitimately stored
		if s.Cfg.Async {
			s.quiescent = false
		}
	}
	save := s.rejected
	s.batchReads(touched, save)
}

// batchReads verifies the state after a batch under the batch oracle.
func (s *Seq) batchReads(touched []int, rejected bool) {
	defer func() {
		if r := recover(); r != nil {
			if _, ok := r.(stopRun); ok && s.V != nil && (s.V.Tag == "read" || s.V.Tag == "reject" || s.V.Tag == "search") {
				s.V.Sig = "batch:" + s.V.Sig
				s.V.Tag = "batch"
			}
			panic(r)
		}
	}()
	if len(touched) > 6 {
		touched = touched[:6]
	}
	s.lightReadsOf("after-batch", touched)
	s.probeAll(s.readTag(), "after-batch", false)
}

// predictChunk returns the rejection classes of one chunk against state m
// (empty: accepted) and fills in the canonical values.
func (s *Seq) predictChunk(m *model.Model, chunk []*batchObj) (map[string]bool, bool) {
	classes := map[string]bool{}
	ambiguous := true
	inBatch := map[int]*batchObj{}
	for _, b := range chunk {
		if b.rec != nil && !b.rep {
			inBatch[b.lid] = b
		}
	}
	for _, b := range chunk {
		if b.rec == nil {
			classes[model.EWrongType] = true
			ambiguous = false
			continue
		}
		if b.rep {
			continue
		}
		nan := ""
		if b.item.NaN {
			nan = "nan"
		}
		exp, cl := s.expectWrite(m, b.rec, nan)
		b.exp = exp
		for k := range cl {
			if k == model.EUnique {
				continue
			}
			classes[k] = true
			ambiguous = false
		}
	}
	// uniqueness: against stored objects and inside the batch
	var ids []int
	for _, b := range chunk {
		if b.rec != nil && !b.rep {
			ids = append(ids, b.lid)
		}
	}
	for _, p := range m.ConsPaths() {
		if !m.Cons[p].Unique {
			continue
		}
		for i, a := range ids {
			va := fieldN(inBatch[a].exp, p)
			for _, l := range m.Lids() {
				if l == a {
					continue
				}
				if model.Cmp(va, m.FieldOf(l, p)) == 0 {
					classes[model.EUnique] = true
					// stored holder is itself replaced by the batch with another value?
					if hb, ok := inBatch[l]; ok && model.Cmp(fieldN(hb.exp, p), va) != 0 {
						s.stat("probe:batch-conflict-with-replaced-value")
					} else {
						ambiguous = false
					}
				}
			}
			for _, b := range ids[i+1:] {
				if model.Cmp(va, fieldN(inBatch[b].exp, p)) == 0 {
					classes[model.EUnique] = true
					ambiguous = false
					s.stat("probe:intra-batch-conflict")
				}
			}
		}
	}
	if len(classes) == 0 {
		ambiguous = false
	}
	return classes, ambiguous
}

func fieldN(r *shapes.Rec, p string) model.NVal {
	x, _ := model.FieldValue(r, p)
	n, _ := model.Normalise(x)
	return n
}

// opSearchDelete deletes through a search.
func (s *Seq) opSearchDelete(op *Op) {
	exp, expErr := evalQuery(s.M, op.Q)
	sr := s.buildSearch(op.Q)
	err := sr.Delete()
	ctx := "search-delete/" + op.Q.String()
	s.rejected = false
	if expErr != "" {
		if err == nil && len(s.M.Objs) > 0 {
			s.fail("args", "bad-args-delete-no-error", "%s: expected an error (%s)", ctx, expErr)
		}
	} else {
		if err != nil {
			s.fail("search", "search-delete-failed", "%s: failed: %v", ctx, err)
		}
		for _, l := range setList(exp) {
			s.modelDelete(l)
		}
		s.syncCommitted()
		if len(exp) > 0 {
			s.stat("probe:search-delete-nonempty")
		}
	}
	func() {
		defer func() {
			if r := recover(); r != nil {
				if _, ok := r.(stopRun); ok && s.V != nil && s.V.Tag == "read" {
					s.V.Tag = "search"
					s.V.Sig = "search-delete:" + s.V.Sig
				}
				panic(r)
			}
		}()
		s.probeCount("search", ctx)
		s.probeAll("search", ctx, false)
		s.lightReadsOf(ctx, setList(exp))
	}()
}

// ---------------------------------------------------------------- held searches (C20)

func (s *Seq) opHold(op *Op) {
	exp, expErr := evalQuery(s.M, op.Q)
	sr := s.buildSearch(op.Q)
	if expErr != "" {
		return
	}
	if sr.Err() != nil {
		s.fail(s.searchTag(op.Q, ""), "search-error:"+ErrClass(sr.Err()), "hold %s: unexpected error %v", op.Q, sr.Err())
	}
	if sr.Len() != len(exp) {
		s.fail(s.searchTag(op.Q, ""), "wrong-len", "hold %s: Len=%d expected %d", op.Q, sr.Len(), len(exp))
	}
	s.held[op.Slot] = &heldSearch{s: sr, expect: exp, q: op.Q, step: s.step}
	s.stat("held")
}

func (s *Seq) opCollect(op *Op) {
	h, ok := s.held[op.Slot]
	if !ok {
		return
	}
	delete(s.held, op.Slot)
	ctx := fmt.Sprintf("collect of search %q evaluated at step %d (matches then: %v)", h.q.String(), h.step, setList(h.expect))
	var objs []sod.Object
	var err error
	if op.Mode == "delete" {
		s.heldDelete(h, ctx)
		return
	}
	if (h.step+op.Slot)%3 == 0 {
		// a search is a value: looking at it does not consume it
		h.s.One()
		s.stat("probe:held-looked-at-before-collect")
	}
	switch op.Mode {
	case "assign":
		var out []*shapes.Rec
		err = h.s.Assign(&out)
		for _, r := range out {
			objs = append(objs, r)
		}
	case "reverse":
		objs, err = h.s.Reverse().Collect()
	case "one":
		var o sod.Object
		o, err = h.s.One()
		if o != nil && err == nil {
			objs = []sod.Object{o}
		}
	default:
		objs, err = h.s.Collect()
	}
	s.stat("held-collected")
	if s.step-h.step > 1 {
		s.stat("probe:held-across-writes")
	}
	// objects that matched and were never deleted since must be returned;
	// one that was deleted meanwhile (even if stored again later under the same
	// identifier) may be reported as an error or omitted
	stillLive := map[int]bool{}
	gone := 0
	for _, l := range setList(h.expect) {
		if _, live := s.M.Objs[l]; live && !h.deleted[l] {
			stillLive[l] = true
		} else {
			gone++
		}
	}
	seen := map[int]bool{}
	for _, o := range objs {
		r, ok := o.(*shapes.Rec)
		if !ok || r == nil {
			s.fail("snapshot", "foreign-object", "%s: returned %T", ctx, o)
		}
		if !h.expect[r.Lid] {
			s.fail("snapshot", "object-outside-snapshot", "%s: returned lid=%d which did not match at evaluation time: %s", ctx, r.Lid, model.JSON(r))
		}
		if seen[r.Lid] {
			s.fail("snapshot", "duplicate-object", "%s: lid=%d returned twice", ctx, r.Lid)
		}
		seen[r.Lid] = true
		if cur, live := s.M.Objs[r.Lid]; !live {
			s.fail("snapshot", "deleted-object-returned", "%s: returned lid=%d which was deleted meanwhile", ctx, r.Lid)
		} else if model.JSON(cur) != model.JSON(r) {
			s.fail("snapshot", "wrong-content", "%s: lid=%d content %s, stored %s", ctx, r.Lid, model.JSON(r), model.JSON(cur))
		}
	}
	if err != nil {
		if gone == 0 && !(op.Mode == "one" && len(h.expect) == 0 && sod.IsNoObjectFound(err)) {
			s.fail("snapshot", "collect-error-without-delete", "%s: failed (%v) although no matched object was deleted", ctx, err)
		}
		return
	}
	if op.Mode == "one" {
		if len(stillLive) > 0 && len(objs) != 1 {
			s.fail("snapshot", "one-missing", "%s: One returned nothing", ctx)
		}
		return
	}
	for _, l := range setList(stillLive) {
		if !seen[l] {
			s.fail("snapshot", "missing-object", "%s: lid=%d matched and still exists but was not returned (returned %v)", ctx, l, setList(seen))
		}
	}
}

// ---------------------------------------------------------------- hooks (C15)

func (s *Seq) installHooks() {
	shapes.OnTransform = func(r *shapes.Rec) {
		if s.hookOn {
			s.hooks = append(s.hooks, hookEv{seq: s.W.NextSeq(), kind: 'T', lid: r.Lid})
		}
	}
	shapes.OnValidate = func(r *shapes.Rec) error {
		if s.hookOn {
			s.hooks = append(s.hooks, hookEv{seq: s.W.NextSeq(), kind: 'V', lid: r.Lid, json: model.JSON(r)})
		}
		return nil
	}
}

func (s *Seq) hookBegin() {
	s.hooks = s.hooks[:0]
	s.hookOn = true
	s.W.FS.FirstMut = 0
}

// checkHooks: every object that was stored went through Transform, then the
// schema's case transform, then Validate (which saw the canonical value), and
// all of that before the first file mutation of the call.
func (s *Seq) checkHooks(exps []*shapes.Rec, accepted bool, classes map[string]bool) {
	s.hookOn = false
	firstMut := s.W.FS.FirstMut
	if !accepted {
		if classes[model.EInvalid] && len(classes) == 1 && firstMut != 0 && !s.Cfg.Async && !s.smallAsync && !s.bulkHooks {
			s.fail("hooks", "storage-touched-for-invalid-object", "an invalid object caused a file mutation")
		}
		return
	}
	for _, exp := range exps {
		var tSeq, vSeq uint64
		vjson := ""
		for _, e := range s.hooks {
			if e.lid != exp.Lid {
				continue
			}
			if e.kind == 'T' && tSeq == 0 {
				tSeq = e.seq
			}
			if e.kind == 'V' {
				vSeq = e.seq
				vjson = e.json
			}
		}
		if tSeq == 0 {
			s.fail("hooks", "transform-not-called", "lid=%d was stored without Transform being called", exp.Lid)
		}
		if vSeq == 0 {
			s.fail("hooks", "validate-not-called", "lid=%d was stored without Validate being consulted", exp.Lid)
		}
		if tSeq > vSeq {
			s.fail("hooks", "validate-before-transform", "lid=%d: Validate ran before Transform", exp.Lid)
		}
		if vjson != model.JSON(exp) {
			s.fail("hooks", "validate-saw-untransformed", "lid=%d: Validate saw %s, expected the transformed canonical value %s", exp.Lid, vjson, model.JSON(exp))
		}
		if !s.Cfg.Async && !s.smallAsync && !s.bulkHooks && firstMut != 0 && vSeq > firstMut {
			s.fail("hooks", "stored-before-validate", "lid=%d: a file was modified (event %d) before Validate ran (event %d)", exp.Lid, firstMut, vSeq)
		}
		s.stat("hooks-checked")
	}
}

// ---------------------------------------------------------------- scribbling (C14)

// Scribble overwrites everything reachable from r, in place.
func Scribble(r *shapes.Rec) {
	if r == nil {
		return
	}
	r.I8, r.I16, r.I32, r.I64, r.I = -7, -7, -7, -7, -7
	r.U8, r.U16, r.U32, r.U64, r.U = 77, 77, 77, 77, 77
	r.F32, r.F64 = -7.5, -7.5
	r.S, r.Up, r.Lo, r.Raw, r.Der = "scribbled", "scribbled", "scribbled", "scribbled", "scribbled"
	r.E, r.ES = 777, "scribbled"
	r.In.N, r.In.S = -7, "scribbled"
	if r.P != nil {
		r.P.N, r.P.S = -7, "scribbled"
	}
	for i := range r.Tags {
		r.Tags[i] = "scribbled"
	}
	if cap(r.Tags) > len(r.Tags) {
		ext := r.Tags[:cap(r.Tags)]
		for i := len(r.Tags); i < len(ext); i++ {
			ext[i] = "scribbled-cap"
		}
	}
	r.Tags = append(r.Tags, "scribbled-append")
	for k := range r.M {
		r.M[k] = -7
	}
	if r.M != nil {
		r.M["scribbled"] = -7
	}
	if r.PI != nil {
		*r.PI = -7
	}
	for _, in := range r.L {
		if in != nil {
			in.N, in.S = -7, "scribbled"
		}
	}
	for i := range r.L {
		if r.L[i] == nil {
			r.L[i] = &shapes.Inner{S: "scribbled-new"}
		}
	}
	for _, l := range r.MI {
		for _, in := range l {
			if in != nil {
				in.N, in.S = -7, "scribbled"
			}
		}
	}
	if r.MI != nil {
		r.MI["scribbled"] = []*shapes.Inner{{S: "scribbled"}}
	}
	scribbleAny(r.Any)
	scrLine := func(l *shapes.Line) {
		l.Name = "scribbled"
		for i := range l.Tags {
			l.Tags[i] = "scribbled"
		}
		for k := range l.Attrs {
			l.Attrs[k] = -7
		}
		if l.Attrs != nil {
			l.Attrs["scribbled"] = -7
		}
		if l.Qty != nil {
			*l.Qty = -7
		}
		if l.Sub != nil {
			l.Sub.N, l.Sub.S = -7, "scribbled"
		}
	}
	for i := range r.LS {
		scrLine(&r.LS[i])
	}
	for i := range r.AR {
		scrLine(&r.AR[i])
	}
	for i := range r.AP {
		if r.AP[i] != nil {
			r.AP[i].N, r.AP[i].S = -7, "scribbled"
		}
	}
	for k, l := range r.MS {
		scrLine(&l) // the copy shares Tags / Attrs / Qty / Sub with the map value
		_ = k
	}
	r.Lid = -r.Lid - 100000
}

func scribbleAny(x interface{}) {
	switch v := x.(type) {
	case []interface{}:
		for i := range v {
			scribbleAny(v[i])
			v[i] = "scribbled"
		}
	case map[string]interface{}:
		for k := range v {
			scribbleAny(v[k])
			v[k] = "scribbled"
		}
		v["scribbled"] = true
	}
}

var _ = json.Marshal
var _ = math.NaN

// heldDelete deletes through a search that was evaluated earlier: only objects
// that matched at evaluation time may disappear; those that matched and were
// never deleted since must all be gone when no error is reported.
func (s *Seq) heldDelete(h *heldSearch, ctx string) {
	err := h.s.Delete()
	s.stat("held-deleted")
	objs, aerr := s.db.All(rec0())
	if aerr != nil {
		s.fail("snapshot", "all-failed-after-held-delete", "%s: All fails after deleting through the held search: %v", ctx, aerr)
	}
	actual := map[int]bool{}
	for _, o := range objs {
		r, ok := o.(*shapes.Rec)
		if !ok {
			s.fail("snapshot", "foreign-object", "%s: All returned %T", ctx, o)
		}
		actual[r.Lid] = true
	}
	gone := 0
	for _, l := range setList(h.expect) {
		if _, live := s.M.Objs[l]; !live || h.deleted[l] {
			gone++
		}
	}
	for _, l := range s.M.Lids() {
		if actual[l] {
			continue
		}
		// l disappeared
		if !h.expect[l] {
			s.fail("snapshot", "delete-outside-snapshot", "%s: deleting through the held search removed lid=%d, which did not match when the search was evaluated", ctx, l)
		}
	}
	for l := range actual {
		if _, live := s.M.Objs[l]; !live {
			s.fail("snapshot", "ghost-object", "%s: lid=%d exists after the held delete but is not stored", ctx, l)
		}
	}
	if err != nil {
		if gone == 0 {
			s.fail("snapshot", "held-delete-error-without-delete", "%s: Delete through the held search failed (%v) although no matched object was deleted meanwhile", ctx, err)
		}
	} else {
		for _, l := range setList(h.expect) {
			if _, live := s.M.Objs[l]; live && !h.deleted[l] && actual[l] {
				s.fail("snapshot", "held-delete-missed-object", "%s: lid=%d matched, still exists, and survived the delete through the held search", ctx, l)
			}
		}
	}
	for _, l := range s.M.Lids() {
		if !actual[l] {
			s.modelDelete(l)
		}
	}
	s.rejected = false
	s.syncCommitted()
	s.lightReads("after-held-delete")
}
