package scen

import (
	"fmt"
	"math"

	"verifsim/model"
	"verifsim/shapes"
	"verifsim/simrt"
)

// Cmp is one comparison of a query.
type Cmp struct {
	Path string `json:"path"`
	Op   string `json:"op"`
	V    Val    `json:"v"`
}

func (c Cmp) String() string { return fmt.Sprintf("%s %s %s(%v)", c.Path, c.Op, c.V.T, c.V.Go()) }

// Query is a first comparison refined by And / Or steps.
type Query struct {
	First Cmp    `json:"first"`
	Rest  []Conj `json:"rest,omitempty"`
}

type Conj struct {
	Or bool `json:"or,omitempty"`
	C  Cmp  `json:"c"`
}

func (q *Query) String() string {
	s := q.First.String()
	for _, c := range q.Rest {
		if c.Or {
			s += " OR " + c.C.String()
		} else {
			s += " AND " + c.C.String()
		}
	}
	return s
}

// BatchItem is one member of a batch write.
type BatchItem struct {
	Lid     int         `json:"lid"`
	Rec     *shapes.Rec `json:"rec,omitempty"`
	Foreign bool        `json:"foreign,omitempty"` // an object of another type
	SameAs  int         `json:"same_as,omitempty"` // 1+index of an earlier item whose pointer is passed again
	NaN     bool        `json:"nan,omitempty"`
}

// Op is one step of a history. Ops are total: they can be executed in any
// state, so that removing earlier ops (minimisation) keeps a history valid.
type Op struct {
	K     string      `json:"k"`
	Lid   int         `json:"lid,omitempty"`
	Rec   *shapes.Rec `json:"rec,omitempty"`
	NaN   string      `json:"nan,omitempty"` // "nan" "inf" "chan": make the value unserialisable
	Batch []BatchItem `json:"batch,omitempty"`
	Chunk int         `json:"chunk,omitempty"`
	Q     *Query      `json:"q,omitempty"`
	Slot  int         `json:"slot,omitempty"`
	Mode  string      `json:"mode,omitempty"`
	Ms    int64       `json:"ms,omitempty"`
	Flag  bool        `json:"flag,omitempty"`
	NCfg  *Config     `json:"ncfg,omitempty"`
	Seed  uint64      `json:"seed,omitempty"` // sub-seed for plans drawn at execution time
}

func (o *Op) String() string {
	switch o.K {
	case "save":
		return fmt.Sprintf("save lid=%d %s%s", o.Lid, recBrief(o.Rec), o.NaN)
	case "many", "bulk":
		s := fmt.Sprintf("%s chunk=%d [", o.K, o.Chunk)
		for i, b := range o.Batch {
			if i > 0 {
				s += "; "
			}
			switch {
			case b.Foreign:
				s += "foreign"
			case b.SameAs > 0:
				s += fmt.Sprintf("same-as#%d", b.SameAs-1)
			default:
				s += fmt.Sprintf("lid=%d %s", b.Lid, recBrief(b.Rec))
			}
		}
		return s + "]"
	case "sdel", "hold":
		return fmt.Sprintf("%s slot=%d %s", o.K, o.Slot, o.Q)
	case "collect":
		return fmt.Sprintf("collect slot=%d mode=%s", o.Slot, o.Mode)
	case "sleep":
		return fmt.Sprintf("sleep %dms", o.Ms)
	case "create":
		if o.NCfg != nil {
			return fmt.Sprintf("create cache=%v async=%v(%d,%dms) off-struct=%v %s", o.NCfg.Cache, o.NCfg.Async, o.NCfg.Threshold, o.NCfg.TimeoutMs, o.NCfg.OffStruct, o.Mode)
		}
		return "create same"
	}
	return fmt.Sprintf("%s lid=%d mode=%s flag=%v", o.K, o.Lid, o.Mode, o.Flag)
}

func recBrief(r *shapes.Rec) string {
	if r == nil {
		return "<nil>"
	}
	return model.JSON(r)
}

// defaultWeights of the op alphabet.
var defaultWeights = map[string]int{
	"save": 30, "update": 25, "resave": 5, "del": 10, "delall": 1, "sdel": 4, "many": 6, "bulk": 3,
	"reads": 6, "sweep": 6, "hold": 0, "collect": 0, "reopen": 5, "abandon": 2, "flush": 0, "sleep": 0, "create": 2,
	"getabsent": 4, "await": 0, "small": 5, "repair": 2, "misuse": 2, "drop": 1,
}

type gen struct {
	r     *simrt.Rand
	cfg   *Config
	pools *Pools
	prof  *Profile
	next  int   // next fresh lid
	live  []int // lids probably live
	dead  []int
	slots int
	// async setting after the last create switch drawn so far
	switched, asyncNow bool
}

// GenOps draws a history.
func GenOps(r *simrt.Rand, cfg *Config, pools *Pools, prof *Profile) []Op {
	g := &gen{r: r, cfg: cfg, pools: pools, prof: prof, next: 1}
	n := 1 + r.Intn(prof.MaxOps)
	if r.Chance(1, 2) {
		n = 1 + r.Intn(1+prof.MaxOps/3) // most runs are short
	} else if prof.MaxOps >= 20 && r.Chance(1, 6) {
		n = prof.MaxOps + r.Intn(3*prof.MaxOps) // a few are long: larger collections and indexes
	}
	weights := map[string]int{}
	for k, v := range defaultWeights {
		weights[k] = v
	}
	for k, v := range prof.W {
		weights[k] = v
	}
	if cfg.Async {
		if _, ok := prof.W["flush"]; !ok {
			weights["flush"] = 6
		}
		if _, ok := prof.W["sleep"]; !ok {
			weights["sleep"] = 8
		}
		weights["abandon"] = 0
	}
	kinds := []string{"save", "update", "resave", "del", "delall", "sdel", "many", "bulk", "reads", "sweep", "hold", "collect",
		"reopen", "abandon", "flush", "sleep", "create", "getabsent", "await", "small", "repair", "misuse", "drop"}
	total := 0
	for _, k := range kinds {
		total += weights[k]
	}
	var ops []Op
	for i := 0; i < n; i++ {
		x := r.Intn(total)
		k := ""
		for _, kk := range kinds {
			if x < weights[kk] {
				k = kk
				break
			}
			x -= weights[kk]
		}
		op := g.genOp(k)
		op.Seed = r.Uint64()
		ops = append(ops, op)
		if op.K == "reopen" && !op.Flag && cfg.Async && r.Chance(1, 2) {
			// the first call on the new handle loads the schema and queues a write (the
			// caller identifies the object, so that no other call precedes the insertion),
			// then the client goes silent: the write must be flushed all the same
			ops[len(ops)-1].Mode = "quiet"
			lid := g.fresh()
			g.live = append(g.live, lid)
			ops = append(ops, Op{K: "save", Lid: lid, Rec: g.rec(), Flag: true, Mode: "quiet", Seed: r.Uint64()},
				Op{K: "await", Mode: "timeout", Seed: r.Uint64()})
		}
	}
	return ops
}

func (g *gen) fresh() int { l := g.next; g.next++; return l }

func (g *gen) pickLive() (int, bool) {
	if len(g.live) == 0 {
		return 0, false
	}
	return g.live[g.r.Intn(len(g.live))], true
}

func (g *gen) kill(lid int) {
	for i, l := range g.live {
		if l == lid {
			g.live = append(g.live[:i:i], g.live[i+1:]...)
			g.dead = append(g.dead, lid)
			return
		}
	}
}

func (g *gen) rec() *shapes.Rec {
	return GenRec(g.r, g.pools, g.prof.Scribble || g.r.Chance(1, 4))
}

func (g *gen) genOp(k string) Op {
	r := g.r
	switch k {
	case "save":
		lid := g.fresh()
		g.live = append(g.live, lid)
		op := Op{K: "save", Lid: lid, Rec: g.rec()}
		if r.Chance(1, 40) {
			op.NaN = []string{"nan", "inf", "chan"}[r.Intn(3)]
		}
		op.Flag = r.Chance(1, 8) // the caller identifies the new object itself (upper-case hex digits are legal)
		return op
	case "update":
		lid, ok := g.pickLive()
		if !ok {
			return g.genOp("save")
		}
		if r.Chance(1, 10) && len(g.dead) > 0 {
			lid = g.dead[r.Intn(len(g.dead))] // re-save a deleted object under its uuid
			g.live = append(g.live, lid)
		}
		op := Op{K: "save", Lid: lid, Rec: g.rec()}
		if r.Chance(1, 40) {
			op.NaN = []string{"nan", "inf", "chan"}[r.Intn(3)]
		}
		return op
	case "resave":
		lid, ok := g.pickLive()
		if !ok {
			return g.genOp("save")
		}
		return Op{K: "resave", Lid: lid, Flag: r.Chance(1, 3)}
	case "del":
		lid, ok := g.pickLive()
		if !ok || r.Chance(1, 8) {
			if len(g.dead) > 0 && r.Bool() {
				return Op{K: "del", Lid: g.dead[r.Intn(len(g.dead))]}
			}
			return Op{K: "del", Lid: 1000 + r.Intn(5)} // never stored
		}
		g.kill(lid)
		return Op{K: "del", Lid: lid}
	case "delall":
		g.dead = append(g.dead, g.live...)
		g.live = nil
		return Op{K: "delall"}
	case "sdel":
		return Op{K: "sdel", Q: g.query(false)}
	case "many", "bulk":
		n := r.Intn(6)
		if r.Chance(1, 5) {
			n = 6 + r.Intn(7)
		}
		op := Op{K: k}
		for i := 0; i < n; i++ {
			switch {
			case r.Chance(1, 25):
				op.Batch = append(op.Batch, BatchItem{Foreign: true})
			case i > 0 && r.Chance(1, 10):
				op.Batch = append(op.Batch, BatchItem{SameAs: 1 + r.Intn(i)})
			case r.Chance(1, 3) && len(g.live) > 0:
				lid, _ := g.pickLive()
				op.Batch = append(op.Batch, BatchItem{Lid: lid, Rec: g.rec()})
			default:
				lid := g.fresh()
				g.live = append(g.live, lid)
				op.Batch = append(op.Batch, BatchItem{Lid: lid, Rec: g.rec(), NaN: r.Chance(1, 60)})
			}
		}
		if k == "bulk" {
			cs := []int{0, 1, 2, 3, n, n + 1}
			op.Chunk = cs[r.Intn(len(cs))] // 0: the whole stream is one chunk
			op.Flag = true                 // chunk size given explicitly (0 is meaningful)
		}
		return op
	case "reads":
		return Op{K: "reads"}
	case "sweep":
		return Op{K: "sweep"}
	case "repair":
		return Op{K: "repair"}
	case "drop":
		g.live, g.dead = nil, append(g.dead, g.live...)
		return Op{K: "drop"}
	case "misuse":
		return Op{K: "misuse", Mode: []string{"assignall", "assign", "assignone", "assignunique"}[r.Intn(4)]}
	case "getabsent":
		return Op{K: "getabsent", Lid: r.Intn(g.next + 2)}
	case "hold":
		g.slots++
		return Op{K: "hold", Slot: g.slots - 1, Q: g.query(true)}
	case "collect":
		if g.slots == 0 {
			return g.genOp("hold")
		}
		return Op{K: "collect", Slot: r.Intn(g.slots), Mode: []string{"collect", "collect", "assign", "reverse", "one", "delete"}[r.Intn(6)]}
	case "reopen":
		return Op{K: "reopen", Flag: r.Bool()}
	case "abandon":
		return Op{K: "abandon", Flag: r.Bool()}
	case "flush":
		lid, _ := g.pickLive()
		return Op{K: "flush", Mode: []string{"all", "allcommit", "commit", "one", "onecommit"}[r.Intn(5)], Lid: lid}
	case "small":
		return Op{K: "small"}
	case "await":
		return Op{K: "await", Mode: []string{"threshold", "threshold", "timeout"}[r.Intn(3)]}
	case "sleep":
		ms := []int64{1, 50, 100, 150, 500, 1000, 5000, 61000, 3700000}
		return Op{K: "sleep", Ms: ms[r.Intn(len(ms))]}
	case "create":
		op := Op{K: "create"}
		if r.Chance(1, 2) && !g.prof.ForceSync {
			nc := *g.cfg
			nc.Cache = r.Bool()
			if !g.prof.NoAsync {
				nc.Async = r.Bool()
				if g.switched && !g.asyncNow {
					nc.Async = r.Chance(3, 4) // histories that switched async off mostly come back
				}
				g.switched, g.asyncNow = true, nc.Async
				if nc.Async && r.Chance(1, 2) {
					// off and on again in one go (the flusher has to be restarted)
					op.Mode, op.Flag, op.Lid = "cycle", r.Bool(), r.Intn(2)
				}
				if nc.Async {
					nc.Threshold = []int{1, 2, 3, 1000}[r.Intn(4)]
					nc.TimeoutMs = []int64{100, 250, 1000, 60000, 3600000}[r.Intn(5)]
				}
				nc.OffStruct = r.Bool()
			}
			op.NCfg = &nc
		}
		return op
	}
	return Op{K: "reads"}
}

// query draws a query over the record paths.
func (g *gen) query(held bool) *Query {
	r := g.r
	q := &Query{First: g.cmp()}
	n := 0
	if r.Chance(1, 3) {
		n = 1 + r.Intn(3)
	}
	for i := 0; i < n; i++ {
		q.Rest = append(q.Rest, Conj{Or: r.Chance(1, 3), C: g.cmp()})
	}
	return q
}

func (g *gen) cmp() Cmp {
	paths := shapes.RecPaths
	// prefer constrained paths
	var p string
	cons := sortedKeys(g.cfg.Cons)
	if len(cons) > 0 && g.r.Chance(2, 3) {
		p = cons[g.r.Intn(len(cons))]
	} else {
		p = paths[g.r.Intn(len(paths))]
	}
	return GenCmp(g.r, g.pools, p)
}

// GenCmp draws an operator and a well-typed probe for path.
func GenCmp(r *simrt.Rand, pools *Pools, p string) Cmp {
	ops := []string{"=", "!=", "<", "<=", ">", ">="}
	c := Cmp{Path: p, Op: ops[r.Intn(len(ops))]}
	c.V = GenProbe(r, pools, p)
	if c.V.T == "string" && r.Chance(1, 5) {
		c.Op = "~="
		c.V.S = []string{"^a", "b$", "(?i)ab", ".", "^$", "[A-Z]", "ß|Σ", "^.?$", "a.b"}[r.Intn(9)]
	}
	return c
}

func typeOfPath(p string) string {
	switch p {
	case "I8":
		return "int8"
	case "I16":
		return "int16"
	case "I32", "In.N", "P.N":
		return "int32"
	case "I64":
		return "int64"
	case "I", "Lid":
		return "int"
	case "U8":
		return "uint8"
	case "U16", "Emb.E":
		return "uint16"
	case "U32":
		return "uint32"
	case "U64":
		return "uint64"
	case "U":
		return "uint"
	case "F32":
		return "float32"
	case "F64":
		return "float64"
	case "T", "In.T", "P.T":
		return "time"
	}
	return "string"
}

// GenProbe draws a well-typed probe: a pool value, a neighbour, an absent
// value or an extreme of the type.
func GenProbe(r *simrt.Rand, pools *Pools, p string) Val {
	t := typeOfPath(p)
	switch t {
	case "int8", "int16", "int32", "int64", "int", "time":
		var v int64
		src := pools.I[p]
		if p == "Lid" {
			src = []int64{0, 1, 2, 3, 5, 8}
		}
		v = pickI(r, src)
		switch r.Intn(6) {
		case 0:
			if v < math.MaxInt64 {
				v++
			}
		case 1:
			if v > math.MinInt64 {
				v--
			}
		case 2:
			v = pickI(r, intSrcAll(p))
		}
		if t == "time" {
			if r.Chance(1, 6) {
				return Val{T: "int64", I: v}
			}
			return Val{T: "time", I: v}
		}
		// sometimes a wider type of the same class (value may exceed the field's range)
		if r.Chance(1, 5) {
			return Val{T: []string{"int", "int64"}[r.Intn(2)], I: v}
		}
		return Val{T: t, I: clampI(t, v)}
	case "uint8", "uint16", "uint32", "uint64", "uint":
		v := pickU(r, pools.U[p])
		switch r.Intn(6) {
		case 0:
			if v < math.MaxUint64 {
				v++
			}
		case 1:
			if v > 0 {
				v--
			}
		case 2:
			v = pickU(r, uintSrc[p])
		}
		if r.Chance(1, 5) {
			return Val{T: []string{"uint", "uint64"}[r.Intn(2)], U: v}
		}
		return Val{T: t, U: clampU(t, v)}
	case "float32", "float64":
		v := pickF(r, pools.F[p])
		switch r.Intn(6) {
		case 0:
			v = math.Nextafter(v, math.Inf(1))
		case 1:
			v = math.Nextafter(v, math.Inf(-1))
		case 2:
			v = pickF(r, floatSrc[p])
		}
		if model.IsNaNInf(v) {
			v = 0
		}
		if t == "float32" && r.Chance(1, 2) {
			return Val{T: "float32", F: float64(float32(v))}
		}
		return Val{T: "float64", F: v}
	}
	src := pools.S[p]
	if len(src) == 0 {
		src = []string{"d:r1", "d:r2", "d:bad", "d:R1", "D:R1", "d:ok"}
	}
	v := pickS(r, src)
	switch r.Intn(7) {
	case 0:
		v = model.Case(v, true)
	case 1:
		v = model.Case(v, false)
	case 2:
		v = pickS(r, strs)
	case 3:
		v = v + "\x00"
	}
	return Val{T: "string", S: v}
}

func intSrcAll(p string) []int64 {
	if s, ok := intSrc[p]; ok {
		return s
	}
	return i64s
}

func clampI(t string, v int64) int64 {
	switch t {
	case "int8":
		return int64(int8(v))
	case "int16":
		return int64(int16(v))
	case "int32":
		return int64(int32(v))
	}
	return v
}

func clampU(t string, v uint64) uint64 {
	switch t {
	case "uint8":
		return uint64(uint8(v))
	case "uint16":
		return uint64(uint16(v))
	case "uint32":
		return uint64(uint32(v))
	}
	return v
}
