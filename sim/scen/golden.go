package scen

import (
	"bytes"
	"encoding/json"
	"fmt"
	"regexp"
	"sort"
	"strings"
	"time"

	"github.com/0xrawsec/sod"
	old "github.com/0xrawsec/sodold"
	"github.com/google/uuid"

	"verifsim/model"
	"verifsim/shapes"
	"verifsim/simrt"
)

// gModel is the reference for the cross-version scenario.
type gModel struct {
	objs map[int]*shapes.GRec
	uuid map[int]string
}

func gJSON(r *shapes.GRec) string { b, _ := json.Marshal(r); return string(b) }

func gClone(r *shapes.GRec) *shapes.GRec {
	b, _ := json.Marshal(r)
	out := &shapes.GRec{}
	json.Unmarshal(b, out)
	out.Initialize(r.UUID())
	return out
}

func (m *gModel) lids() []int {
	var l []int
	for k := range m.objs {
		l = append(l, k)
	}
	sort.Ints(l)
	return l
}

// canon applies the tag-level case constraints of GRec.
func gCanon(r *shapes.GRec) {
	r.S = model.Case(r.S, false)
	r.In.W = model.Case(r.In.W, true)
	if r.P != nil {
		r.P.W = model.Case(r.P.W, true)
	}
}

func (m *gModel) match(path, op string, probe interface{}) []int {
	np, _ := model.Normalise(probe)
	var rex *regexp.Regexp
	if op == "~=" {
		rex = regexp.MustCompile(np.S)
	}
	var out []int
	for _, l := range m.lids() {
		x, _ := model.FieldValue(m.objs[l], path)
		nx, _ := model.Normalise(x)
		if model.Eval(nx, op, np, rex) {
			out = append(out, l)
		}
	}
	return out
}

func genGRec(r *simrt.Rand, lid, k int) *shapes.GRec {
	strs := []string{"a", "B", "abc", "ABC", "Zz", "é", "x y", ""}
	g := &shapes.GRec{Lid: lid, K: k, N: int32(r.Intn(5) - 2), S: strs[r.Intn(len(strs))], F: []float64{0, 0.5, -1.25, 1e10, 3}[r.Intn(5)],
		U: uint16(r.Intn(4)), T: time.Unix(0, 1700000000123456789+int64(r.Intn(3))).UTC(),
		In: shapes.GInner{N: int16(r.Intn(3)), W: strs[r.Intn(len(strs))]}}
	if r.Bool() {
		g.Tags = []string{"t", strs[r.Intn(len(strs))]}
	}
	if r.Bool() {
		g.M = map[string]int{"a": r.Intn(3)}
	}
	if r.Bool() {
		g.P = &shapes.GInner{N: int16(r.Intn(3)), W: strs[r.Intn(len(strs))]}
	}
	return g
}

type gdb interface {
	put(*shapes.GRec) error
	del(*shapes.GRec) error
	get(uuid string) (*shapes.GRec, error)
	all() ([]*shapes.GRec, error)
	count() (int, error)
	search(path, op string, v interface{}) ([]*shapes.GRec, error)
	close() error
	isUnique(error) bool
	control() error
}

type curDB struct{ db *sod.DB }

func (c curDB) put(r *shapes.GRec) error { return c.db.InsertOrUpdate(r) }
func (c curDB) del(r *shapes.GRec) error { return c.db.Delete(r) }
func (c curDB) get(u string) (*shapes.GRec, error) {
	o, err := c.db.GetByUUID(&shapes.GRec{}, u)
	if err != nil {
		return nil, err
	}
	return o.(*shapes.GRec), nil
}
func (c curDB) all() ([]*shapes.GRec, error) {
	var out []*shapes.GRec
	err := c.db.AssignAll(&shapes.GRec{}, &out)
	return out, err
}
func (c curDB) count() (int, error) { return c.db.Count(&shapes.GRec{}) }
func (c curDB) search(p, op string, v interface{}) ([]*shapes.GRec, error) {
	var out []*shapes.GRec
	s := c.db.Search(&shapes.GRec{}, p, op, v)
	if s.Err() != nil {
		return nil, s.Err()
	}
	err := s.Assign(&out)
	return out, err
}
func (c curDB) close() error          { return c.db.Close() }
func (c curDB) isUnique(e error) bool { return sod.IsUnique(e) }
func (c curDB) control() error        { return c.db.Control() }

type oldDB struct{ db *old.DB }

func (c oldDB) put(r *shapes.GRec) error { return c.db.InsertOrUpdate(r) }
func (c oldDB) del(r *shapes.GRec) error { return c.db.Delete(r) }
func (c oldDB) get(u string) (*shapes.GRec, error) {
	o, err := c.db.GetByUUID(&shapes.GRec{}, u)
	if err != nil {
		return nil, err
	}
	return o.(*shapes.GRec), nil
}
func (c oldDB) all() ([]*shapes.GRec, error) {
	var out []*shapes.GRec
	err := c.db.AssignAll(&shapes.GRec{}, &out)
	return out, err
}
func (c oldDB) count() (int, error) { return c.db.Count(&shapes.GRec{}) }
func (c oldDB) search(p, op string, v interface{}) ([]*shapes.GRec, error) {
	var out []*shapes.GRec
	s := c.db.Search(&shapes.GRec{}, p, op, v)
	if s.Err() != nil {
		return nil, s.Err()
	}
	err := s.Assign(&out)
	return out, err
}
func (c oldDB) close() error          { return c.db.Close() }
func (c oldDB) isUnique(e error) bool { return old.IsUnique(e) }
func (c oldDB) control() error        { return c.db.Control() }

type golden struct {
	w     *simrt.World
	r     *simrt.Rand
	m     *gModel
	V     *Violation
	stats map[string]int
	cfg   *Config
	nextL int
	nextK int
	log   []string
}

func (g *golden) fail(sig, format string, a ...interface{}) {
	if g.V == nil {
		g.V = &Violation{Tag: "layout", Sig: "layout:xver:" + sig, Msg: fmt.Sprintf(format, a...)}
	}
	panic(stopRun{})
}

// writes performs a few seeded writes through db and the model.
func (g *golden) writes(db gdb, who string, n int) {
	for i := 0; i < n; i++ {
		lids := g.m.lids()
		switch x := g.r.Intn(10); {
		case x < 5 || len(lids) == 0:
			g.nextL++
			g.nextK++
			o := genGRec(g.r, g.nextL, g.nextK)
			exp := gClone(o)
			gCanon(exp)
			if err := db.put(o); err != nil {
				g.fail("write-failed:"+who, "%s: insert failed: %v", who, err)
			}
			exp.Initialize(o.UUID())
			g.m.objs[o.Lid] = exp
			g.m.uuid[o.Lid] = o.UUID()
			g.log = append(g.log, fmt.Sprintf("%s insert lid=%d %s", who, o.Lid, gJSON(exp)))
		case x < 8:
			l := lids[g.r.Intn(len(lids))]
			o := genGRec(g.r, l, g.m.objs[l].K)
			o.Initialize(g.m.uuid[l])
			exp := gClone(o)
			gCanon(exp)
			if err := db.put(o); err != nil {
				g.fail("write-failed:"+who, "%s: update of lid=%d failed: %v", who, l, err)
			}
			g.m.objs[l] = exp
			g.log = append(g.log, fmt.Sprintf("%s update lid=%d %s", who, l, gJSON(exp)))
		default:
			l := lids[g.r.Intn(len(lids))]
			o := &shapes.GRec{}
			o.Initialize(g.m.uuid[l])
			if err := db.del(o); err != nil {
				g.fail("write-failed:"+who, "%s: delete of lid=%d failed: %v", who, l, err)
			}
			delete(g.m.objs, l)
			g.log = append(g.log, fmt.Sprintf("%s delete lid=%d", who, l))
		}
	}
}

func (g *golden) sameSet(got []*shapes.GRec, want []int, ctx string) {
	gotm := map[int]string{}
	for _, o := range got {
		if _, dup := gotm[o.Lid]; dup {
			g.fail("duplicate:"+ctxClass(ctx), "%s: lid=%d returned twice", ctx, o.Lid)
		}
		gotm[o.Lid] = gJSON(o)
		if o.UUID() != g.m.uuid[o.Lid] {
			g.fail("uuid:"+ctxClass(ctx), "%s: lid=%d has uuid %q, expected %q", ctx, o.Lid, o.UUID(), g.m.uuid[o.Lid])
		}
	}
	if len(gotm) != len(want) {
		g.fail("wrong-set:"+ctxClass(ctx), "%s: got %d objects, expected lids %v", ctx, len(gotm), want)
	}
	for _, l := range want {
		j, ok := gotm[l]
		if !ok {
			g.fail("wrong-set:"+ctxClass(ctx), "%s: lid=%d missing (expected %v)", ctx, l, want)
		}
		if j != gJSON(g.m.objs[l]) {
			g.fail("wrong-content:"+ctxClass(ctx), "%s: lid=%d is %s, expected %s", ctx, l, j, gJSON(g.m.objs[l]))
		}
	}
}

func ctxClass(ctx string) string {
	if i := strings.Index(ctx, ":"); i > 0 {
		return ctx[:i]
	}
	return ctx
}

// observe compares every read path with the model; strict adds the probes the
// pinned release is known to get wrong (values reloaded through float64...).
func (g *golden) observe(db gdb, who string, strict bool) {
	n, err := db.count()
	if err != nil {
		g.fail("unloadable:"+who, "%s: the directory does not load: %v", who, err)
	}
	if n != len(g.m.objs) {
		g.fail("wrong-count:"+who, "%s: Count=%d, expected %d", who, n, len(g.m.objs))
	}
	all, err := db.all()
	if err != nil {
		g.fail("all-failed:"+who, "%s: All failed: %v", who, err)
	}
	g.sameSet(all, g.m.lids(), who+": All")
	for _, l := range g.m.lids() {
		o, err := db.get(g.m.uuid[l])
		if err != nil {
			g.fail("get-failed:"+who, "%s: Get lid=%d failed: %v", who, l, err)
		}
		g.sameSet([]*shapes.GRec{o}, []int{l}, who+": Get")
	}
	probes := []struct {
		p  string
		vs []interface{}
	}{
		{"K", []interface{}{0, 1, 3, 100}},
		{"N", []interface{}{int32(-2), int32(0), int32(1), int32(9)}},
		{"U", []interface{}{uint16(0), uint16(2)}},
		{"F", []interface{}{0.0, 0.5, -1.25, 2.0}},
		{"S", []interface{}{"abc", "ABC", "b", "zz", ""}},
		{"In.N", []interface{}{int16(0), int16(1)}},
		{"P.N", []interface{}{int16(0), int16(2)}},
		{"Lid", []interface{}{1, 3}},
		{"In.W", []interface{}{"ABC", "abc"}},
	}
	for _, pr := range probes {
		for _, op := range []string{"=", "!=", "<", "<=", ">", ">="} {
			v := pr.vs[g.r.Intn(len(pr.vs))]
			pv := v
			if s, ok := v.(string); ok {
				if pr.p == "S" {
					pv = model.Case(s, false)
				}
				if pr.p == "In.W" {
					pv = model.Case(s, true)
				}
			}
			got, err := db.search(pr.p, op, v)
			if err != nil {
				g.fail("search-failed:"+who, "%s: search %s %s %v failed: %v", who, pr.p, op, v, err)
			}
			g.sameSet(got, g.m.match(pr.p, op, pv), fmt.Sprintf("%s: search %s %s %v", who, pr.p, op, v))
			g.stats["xver-searches"]++
		}
	}
	if strict {
		got, err := db.search("S", "~=", "^a")
		if err != nil {
			g.fail("search-failed:"+who, "%s: regex search failed: %v", who, err)
		}
		g.sameSet(got, g.m.match("S", "~=", "^a"), who+": search S ~= ^a")
	}
	// the unique constraint survived
	lids := g.m.lids()
	if len(lids) > 0 {
		dup := genGRec(g.r, 9999, g.m.objs[lids[0]].K)
		err := db.put(dup)
		if err == nil || !db.isUnique(err) {
			g.fail("unique-lost:"+who, "%s: inserting a second object with K=%d returned %v", who, dup.K, err)
		}
	}
	if err := db.control(); err != nil {
		g.fail("control:"+who, "%s: Control reports %v", who, err)
	}
}

// layout decodes the directory independently of both versions.
func (g *golden) layout(who string) {
	name := "shapes.GRec"
	if g.cfg.Lower {
		name = snake(name)
	}
	dir := "/db/" + name
	raw, stray, err := DiskRaw(g.w.FS, dir, g.cfg.Ext, g.cfg.Compress)
	if err != nil {
		g.fail("undecodable:"+who, "after %s wrote: %v", who, err)
	}
	if len(stray) > 0 {
		g.fail("unexpected-entry:"+who, "after %s wrote: unexpected entries %v in %s", who, stray, dir)
	}
	want := map[string]int{}
	for _, l := range g.m.lids() {
		want[g.m.uuid[l]] = l
	}
	if len(raw) != len(want) {
		g.fail("file-set:"+who, "after %s wrote: %d object files, expected %d", who, len(raw), len(want))
	}
	var us []string
	for u := range raw {
		us = append(us, u)
	}
	sort.Strings(us)
	for _, u := range us {
		l, ok := want[u]
		if !ok {
			g.fail("file-set:"+who, "after %s wrote: file for unknown uuid %s", who, u)
		}
		o := &shapes.GRec{}
		dec := json.NewDecoder(bytes.NewReader(raw[u]))
		dec.DisallowUnknownFields()
		if err := dec.Decode(o); err != nil {
			g.fail("file-content:"+who, "after %s wrote: file of lid=%d is not the plain JSON of the object: %v", who, l, err)
		}
		if gJSON(o) != gJSON(g.m.objs[l]) {
			g.fail("file-content:"+who, "after %s wrote: file of lid=%d holds %s, expected %s", who, l, gJSON(o), gJSON(g.m.objs[l]))
		}
	}
	sb, ok := g.w.FS.RawRead(dir + "/schema.json")
	if !ok {
		g.fail("schema-missing:"+who, "after %s wrote: no schema.json in %s", who, dir)
	}
	d, err := DecodeSchema(sb)
	if err != nil {
		g.fail("schema-format:"+who, "after %s wrote: schema.json does not follow the pinned format: %v", who, err)
	}
	if len(d.Index.ObjectIds) != len(want) {
		g.fail("schema-format:"+who, "after %s wrote: schema.json lists %d objects, expected %d", who, len(d.Index.ObjectIds), len(want))
	}
	for _, p := range []string{"K", "N", "S", "F", "U", "In.N", "P.N"} {
		fi, ok := d.Index.Fields[p]
		if !ok || len(fi.Index) != len(want) {
			g.fail("schema-format:"+who, "after %s wrote: schema.json index of %s has %d entries (present=%v), expected %d", who, p, len(fi.Index), ok, len(want))
		}
	}
	g.stats["xver-layout-checked"]++
}

func odb2() *old.DB { return old.Open("/db") }

type nameObj interface {
	sod.Object
}

func nameObjs() []func() nameObj {
	return []func() nameObj{
		func() nameObj { return &shapes.MD5Sum{} }, func() nameObj { return &shapes.HTTP2Conn{} },
		func() nameObj { return &shapes.X509Cert{} }, func() nameObj { return &shapes.Int32x4{} },
		func() nameObj { return &shapes.ABCDef{} }, func() nameObj { return &shapes.SHA256{} },
		func() nameObj { return &shapes.A1b2C3{} }, func() nameObj { return &shapes.IOReader9{} },
	}
}

// names: the pinned release creates one collection per oddly named type; the
// current code must find every one of them (same directory name) and the
// directory must carry the name an independent reading of the rule gives.
func (g *golden) names(o *old.DB, c *sod.DB, who string) {
	for _, mk := range nameObjs() {
		x := mk()
		tn := fmt.Sprintf("%T", x)[1:] // "shapes.MD5Sum"
		dir := tn
		if g.cfg.Lower {
			dir = snake(tn)
		}
		if o != nil {
			if err := o.Create(x, old.Schema{Extension: g.cfg.Ext, Compress: g.cfg.Compress}); err != nil {
				g.fail("old-create", "pinned release: Create(%s) failed: %v", tn, err)
			}
			if err := o.InsertOrUpdate(x); err != nil {
				g.fail("old-write", "pinned release: insert into %s failed: %v", tn, err)
			}
			if _, ok := g.w.FS.RawList("/db/" + dir); !ok {
				g.fail("dir-name:"+tn, "the pinned release stores %s in a directory that is not %q", tn, dir)
			}
			continue
		}
		n, err := c.Count(x)
		if err != nil || n != 1 {
			g.fail("dir-name:"+tn, "%s: the collection of %s written by the pinned release (directory %q) is not found by the current code: Count=%d, %v", who, tn, dir, n, err)
		}
		g.stats["xver-names-checked"]++
	}
	if o != nil {
		o.Close()
	}
}

// RunGolden is the cross-version half of C18.
func RunGolden(p Params) *Result {
	r := simrt.NewRand(simrt.Mix(p.Seed, 11))
	cfg := &Config{Compress: r.Chance(1, 2), Lower: r.Chance(1, 2), Ext: exts[r.Intn(len(exts))], Cache: r.Chance(1, 2), Cons: map[string]model.Cons{}}
	if cfg.Ext == "" || !strings.HasPrefix(cfg.Ext, ".") {
		// the pinned release panics on a directory entry without a dot (repaired in the
		// current tree, 86beb37) and does not recognise object files whose extension has no
		// leading dot: such extensions are not configurations it supports
		cfg.Ext = ".json"
	}
	if !cfg.Compress && strings.HasSuffix(cfg.Ext, ".gz") {
		// the pinned release cannot read its own uncompressed files under an extension that
		// ends with .gz (it sniffs compression from the suffix; repaired in the current tree):
		// the pinned side is only probed where the pinned release is itself correct
		cfg.Compress = true
	}
	w := simrt.NewWorld(simrt.Mix(p.Seed, 12))
	g := &golden{w: w, r: r.Fork(2), m: &gModel{objs: map[int]*shapes.GRec{}, uuid: map[int]string{}}, stats: map[string]int{}, cfg: cfg}
	uuid.SetRand(w.UUIDRand())
	sod.LowercaseNames = cfg.Lower
	old.LowercaseNames = cfg.Lower
	nOld := 1 + g.r.Intn(8)
	nCur := g.r.Intn(8)
	if v, ok := p.Extra["n"]; ok {
		nOld, nCur = v, v
	}
	w.Run(func() {
		defer func() {
			if x := recover(); x != nil {
				if _, ok := x.(stopRun); !ok {
					panic(x)
				}
			}
		}()
		// phase 1: the pinned release creates and fills the directory
		odb := old.Open("/db")
		os := old.Schema{Extension: cfg.Ext, Compress: cfg.Compress}
		if err := odb.Create(&shapes.GRec{}, os); err != nil {
			g.fail("old-create", "pinned release: Create failed: %v", err)
		}
		g.writes(oldDB{odb}, "pinned", nOld)
		if err := odb.Close(); err != nil {
			g.fail("old-close", "pinned release: Close failed: %v", err)
		}
		g.layout("pinned")
		g.names(odb2(), nil, "pinned")
		// phase 2: the current code opens it
		cdb := sod.Open("/db")
		if g.r.Bool() {
			cs := sod.Schema{Extension: cfg.Ext, Compress: cfg.Compress, Cache: cfg.Cache}
			if err := cdb.Create(&shapes.GRec{}, cs); err != nil {
				g.fail("cur-create", "current code: Create with the same schema on a directory written by the pinned release failed: %v", err)
			}
		}
		g.observe(curDB{cdb}, "current-on-pinned-dir", true)
		g.names(nil, cdb, "current-on-pinned-dir")
		g.writes(curDB{cdb}, "current", nCur)
		g.observe(curDB{cdb}, "current-after-own-writes", true)
		if err := cdb.Close(); err != nil {
			g.fail("cur-close", "current code: Close failed: %v", err)
		}
		g.layout("current")
		// phase 3: still loadable, by the current code and by the pinned release
		cdb = sod.Open("/db")
		g.observe(curDB{cdb}, "current-reopened", true)
		cdb.Close()
		odb = old.Open("/db")
		g.observe(oldDB{odb}, "pinned-on-current-dir", false)
		odb.Close()
		g.stats["probe:cross-version-round-trip"]++
	})
	res := &Result{Params: p, V: g.V, Digest: w.Digest(), Class: fmt.Sprintf("z%v l%v e%s c%v", b2i(cfg.Compress), b2i(cfg.Lower), cfg.Ext, b2i(cfg.Cache)),
		Steps: w.Steps, SimMs: int64(w.Now() / 1e6), NOps: nOld + nCur, Stats: g.stats, Config: cfg.String()}
	if g.V == nil && len(w.Panics) > 0 {
		pn := w.Panics[0]
		res.V = &Violation{Tag: "panic", Sig: "panic:" + panicSite(pn.Stack), Msg: fmt.Sprintf("task %s panicked: %s\n%s", pn.Task, pn.Value, trimStack(pn.Stack))}
	}
	if res.V != nil {
		res.Ops = g.log
	}
	res.Sample = fmt.Sprintf("pinned release writes %d ops, current code reads, writes %d ops, both reopen", nOld, nCur)
	return res
}
