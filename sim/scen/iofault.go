package scen

import (
	"fmt"

	"github.com/0xrawsec/sod"

	"verifsim/model"
	"verifsim/shapes"
	"verifsim/simrt"
)

// callOp performs only the API call of a write operation on handle db, with
// objects built against model m (which is not modified).
func (s *Seq) callOp(db *sod.DB, m *model.Model, op *Op) error {
	save := s.M
	s.M = m
	defer func() { s.M = save }()
	// on asynchronous collections half of the enumerated calls are followed by the flush
	// of what they queued: the faults then also land in the object writes and the commit
	// of a flush (a failed flush must keep what it could not write)
	withFlush := s.Cfg.Async && (op.Lid+len(op.Batch))%2 == 0
	flushAfter := func(err error) error {
		if err == nil && withFlush {
			err = db.FlushAllAndCommit(rec0())
		}
		return err
	}
	switch op.K {
	case "save":
		o := s.build(op.Lid, op.Rec, op.NaN)
		return flushAfter(db.InsertOrUpdate(o))
	case "del":
		u, known := m.UUID[op.Lid]
		o := rec0()
		if known {
			o.Initialize(u)
		} else {
			o.Initialize(absentUUID(op.Lid))
		}
		return db.Delete(o)
	case "delall":
		return db.DeleteAll(rec0())
	case "many", "bulk":
		var list []sod.Object
		byLid := map[int]sod.Object{}
		for _, it := range op.Batch {
			switch {
			case it.Foreign || it.Rec == nil:
				continue
			case it.SameAs > 0:
				continue
			default:
				if _, dup := byLid[it.Lid]; dup {
					continue
				}
				r := s.build(it.Lid, it.Rec, "")
				byLid[it.Lid] = r
				list = append(list, r)
			}
		}
		if op.K == "bulk" {
			ch := make(chan sod.Object, len(list)+1)
			for _, o := range list {
				ch <- o
			}
			close(ch)
			c := op.Chunk
			if c < 1 {
				c = 1
			}
			_, err := db.InsertOrUpdateBulk(ch, c)
			return flushAfter(err)
		}
		_, err := db.InsertOrUpdateMany(list...)
		return flushAfter(err)
	}
	return nil
}

// RunIOFault is the second half of C06: for a valid write of the history,
// every file-system call of the operation fails in turn (EIO / ENOSPC /
// EACCES, short writes) on a fresh handle opened on the state before the op.
func RunIOFault(p Params) *Result {
	prof := *Profiles["C06F"]
	r := simrt.NewRand(simrt.Mix(p.Seed, 11))
	if r.Fork(9).Chance(1, 3) {
		// a third of the runs put the faults into asynchronous collections: the calls
		// of the operation are then the marker and the commits, not the object writes
		prof = *Profiles["C06FA"]
	}
	cfg := GenConfig(r.Fork(1), &prof)
	pools := GenPools(r.Fork(2), 3)
	ops := GenOps(r.Fork(3), cfg, pools, &prof)
	w := simrt.NewWorld(simrt.Mix(p.Seed, 12))
	skip := map[int]bool{}
	for _, i := range p.Skip {
		skip[i] = true
	}
	var kept []Op
	for i, o := range ops {
		if !skip[i] {
			kept = append(kept, o)
		}
	}
	s := NewSeq(w, cfg, &prof, pools, kept)
	var snap *simrt.Snapshot
	var before *model.Model
	cases := 0
	s.Hooks.BeforeOp = func(s *Seq, i int, op *Op) {
		if s.Cfg.Async || s.smallAsync {
			// the fresh handles start from the disk: nothing may be pending
			if err := s.db.FlushAllAndCommit(rec0()); err != nil {
				s.fail("read", "flush-failed:allcommit", "FlushAllAndCommit failed: %v", err)
			}
			if s.small != nil {
				if err := s.db.FlushAllAndCommit(small0()); err != nil {
					s.fail("read", "flush-failed:allcommit", "FlushAllAndCommit (second collection) failed: %v", err)
				}
			}
			s.quiescent, s.smallDirty = true, false
		}
		snap = w.FS.Snapshot()
		before = s.M.CopyState()
	}
	s.Hooks.AfterOp = func(s *Seq, i int, op *Op) {
		switch op.K {
		case "save", "del", "many", "bulk", "delall":
		default:
			return
		}
		if s.rejected || op.NaN != "" {
			return // only valid writes: rejected inputs are the first half of C06
		}
		for _, it := range op.Batch {
			if it.Foreign || it.NaN {
				return
			}
		}
		cases += s.faultPoints(snap, before, op)
	}
	cfg0 := *cfg
	s.Run()
	res := &Result{Params: p, V: s.V, Digest: w.Digest(), Class: cfg0.Class(), Steps: w.Steps,
		SimMs: int64(w.Now() / 1e6), NOps: len(kept), Stats: s.Stats, Config: cfg0.String(), Cases: cases,
		Faults: map[string]int{}, Known: s.KnownSample}
	for k, v := range w.FS.Fired {
		res.Faults[k] = v
	}
	if s.V != nil {
		for i, o := range ops {
			if !skip[i] {
				res.Ops = append(res.Ops, fmt.Sprintf("#%d %s", i, o.String()))
			}
		}
	}
	if len(kept) > 0 {
		res.Sample = fmt.Sprintf("%d fault points over history starting with %.200s", cases, kept[0].String())
	}
	return res
}

func (s *Seq) faultPoints(snap *simrt.Snapshot, before *model.Model, op *Op) int {
	live := s.W.FS.Snapshot()
	after := s.M
	defer s.W.FS.Restore(live)
	if s.Cfg.Async || s.smallAsync {
		// no flusher runs while the disk is swapped (neither the main handle's nor
		// those of the fresh handles, which are unwound afterwards)
		s.W.Exclusive(true)
		mark := s.W.TaskMark()
		defer func() {
			s.W.KillSince(mark)
			s.W.Exclusive(false)
		}()
	}
	// dry run: count the calls of the operation on a fresh handle
	s.W.FS.Restore(snap)
	db := sod.Open(s.Root)
	if v := s.subCheck(db, before, s.prng.Uint64(), 1, "warm-up", true); v != nil {
		return 0 // reopening is C04's business
	}
	s.W.FS.ResetCalls()
	if err := s.callOp(db, before, op); err != nil {
		return 0
	}
	nCalls, nWrites := s.W.FS.Calls, s.W.FS.Writes
	type fp struct {
		kind    string
		at, atw int
		bytes   int
	}
	var pts []fp
	kinds := []string{"eio", "enospc", "eacces"}
	for n := 1; n <= nCalls; n++ {
		if nCalls <= 12 {
			for _, k := range kinds[:2] {
				pts = append(pts, fp{kind: k, at: n})
			}
		} else {
			pts = append(pts, fp{kind: kinds[(n+int(s.prng.Uint64()%3))%3], at: n})
		}
	}
	for wi := 1; wi <= nWrites; wi++ {
		pts = append(pts, fp{kind: "short", atw: wi, bytes: 0}, fp{kind: "short", atw: wi, bytes: 7})
	}
	if len(pts) > 80 {
		perm := s.prng.Perm(len(pts))
		var keep []fp
		for _, i := range perm[:80] {
			keep = append(keep, pts[i])
		}
		pts = keep
	}
	n := 0
	for _, pt := range pts {
		s.W.FS.Restore(snap)
		db := sod.Open(s.Root)
		if v := s.subCheck(db, before, s.prng.Uint64(), 1, "warm-up", true); v != nil {
			continue
		}
		ft := &simrt.Fault{Kind: pt.kind, AtCall: pt.at, AtWrite: pt.atw, Bytes: pt.bytes}
		s.W.FS.ArmFault(ft)
		err := s.callOp(db, before, op)
		s.W.FS.Disarm()
		if !ft.Fired {
			continue
		}
		n++
		desc := fmt.Sprintf("%s: %s injected at %s (call %d/%d, write %d/%d); the call returned: %v", op.K, pt.kind, ft.Where, pt.at, nCalls, pt.atw, nWrites, err)
		site := pt.kind + "@" + faultSite(ft.Where)
		s.tolerateKnown(func() {
			if s.Cfg.Async {
				s.judgeFaultPending(db, desc, before, after, err, op, site)
			}
			s.judgeFault(db, desc, before, after, err, site)
		})
	}
	return n
}

// faultSite reduces "op /path" to a stable site name.
func faultSite(where string) string {
	op := where
	for i := 0; i < len(where); i++ {
		if where[i] == ' ' {
			op = where[:i]
			break
		}
	}
	kind := "object"
	if len(where) >= 11 && where[len(where)-11:] == "schema.json" {
		kind = "schema"
	}
	if containsTmp(where) {
		kind = "tmp-" + kind
	}
	if len(where) > 4 && !containsDot(where[len(where)-12:]) {
		kind = "dir"
	}
	return op + "-" + kind
}

func containsDot(s string) bool {
	for i := 0; i < len(s); i++ {
		if s[i] == '.' {
			return true
		}
	}
	return false
}

// judgeFault applies the (deliberately and narrowly relaxed) oracle of a
// storage fault: the call may fail or succeed; afterwards the state is
// per-object old or new and either quietly consistent (live handle and the
// next load agree with the files) or reported as corrupted and repairable.
func (s *Seq) judgeFault(db *sod.DB, desc string, before, after *model.Model, callErr error, site string) {
	class := opClass(before, after)
	files, ferr := ModelFromFiles(s.W.FS, s.Cfg, s.Root)
	if ferr != nil {
		s.fail("iofault", "object-file-unreadable:"+class+":"+site, "%s: an object file is left unreadable: %v", desc, ferr)
	}
	if e := objectsOldOrNew(files, before, after); e != nil {
		s.fail("iofault", "object-neither-old-nor-new:"+class+":"+site, "%s: %v", desc, e)
	}
	if callErr == nil && !modelsEqual(files, after) {
		s.fail("iofault", "success-reported-but-not-stored:"+class+":"+site, "%s: the call reported success but the files do not hold its result", desc)
	}
	cerr := db.Control()
	if cerr == nil {
		if v := s.subCheck(db, files, s.prng.Uint64(), 2, "after-fault", false); v != nil {
			s.fail("iofault", "silent-divergence-live:"+class+":"+site+":"+v.Tag, "%s: Control reports nothing, yet the handle disagrees with the files: %s", desc, v.Msg)
		}
		s.stat("probe:fault-left-consistent-state")
		// what does the next process see?
		db2 := sod.Open(s.Root)
		_, lerr := db2.Schema(rec0())
		switch {
		case lerr == nil:
			if c2 := db2.Control(); c2 == nil {
				if v := s.subCheck(db2, files, s.prng.Uint64(), 2, "reopen-after-fault", true); v != nil {
					s.fail("iofault", "silent-divergence-on-disk:"+class+":"+site+":"+v.Tag, "%s: the next load reports nothing, yet its index disagrees with the files: %s", desc, v.Msg)
				}
				return
			}
		case sod.IsIndexCorrupted(lerr):
		default:
			s.fail("iofault", "unreadable-after-fault:"+class+":"+site, "%s: the next load fails with %v", desc, lerr)
		}
		s.repairAndCheck(db2, files, desc, class+":"+site)
		return
	}
	if !sod.IsIndexCorrupted(cerr) {
		s.fail("iofault", "control-error:"+class+":"+site, "%s: Control fails with %v", desc, cerr)
	}
	s.stat("probe:fault-reported-as-corruption")
	s.repairAndCheck(db, files, desc, class+":"+site)
}

// judgeFaultPending is the part of the oracle that is specific to asynchronous
// collections, where the truth is files + pending writes: right after the call,
// before anything is flushed, a handle whose Control reports nothing must show
// the state before a failed call (after a successful one) on every read path.
// Then the pending writes are flushed (not committed) and the synchronous
// oracle applies to the files.
func (s *Seq) judgeFaultPending(db *sod.DB, desc string, before, after *model.Model, callErr error, op *Op, site string) {
	class := opClass(before, after)
	single := op.K == "save" || op.K == "del" || op.K == "delall"
	if single || callErr == nil {
		// a call that reports success must show its result; one that fails on storage
		// may have been applied or not (as in synchronous mode), but the handle must
		// show one of the two states on every read path, not a mixture
		// an object created by the call received its UUID in this re-execution
		after2 := after.CopyState()
		if all, err := db.All(rec0()); err == nil {
			for _, o := range all {
				if r, ok := o.(*shapes.Rec); ok && r != nil {
					if _, old := before.Objs[r.Lid]; !old {
						if a, isNew := after2.Objs[r.Lid]; isNew {
							after2.UUID[r.Lid] = r.UUID()
							a.Initialize(r.UUID())
						}
					}
				}
			}
		}
		cands := []*model.Model{after2}
		if callErr != nil {
			cands = []*model.Model{before, after2}
		}
		if cerr := db.Control(); cerr == nil {
			seed := s.prng.Uint64()
			var first *Violation
			ok := false
			for _, exp := range cands {
				v := s.subCheck(db, exp, seed, 2, "after-fault-pending", false)
				if v == nil {
					ok = true
					break
				}
				if first == nil {
					first = v
				}
			}
			if !ok {
				what := "the handle shows neither the state before nor after the failed call"
				if callErr == nil {
					what = "the call reported success but its result is not visible"
				}
				s.fail("iofault", "async-silent-divergence-live:"+class+":"+site+":"+first.Tag, "%s: Control reports nothing, yet %s: %s", desc, what, first.Msg)
			}
			s.stat("probe:async-fault-live-checked")
		}
	}
	if err := db.FlushAll(rec0()); err != nil {
		s.fail("iofault", "async-flush-fails-after-fault:"+class+":"+site, "%s: FlushAll (no fault armed any more) fails: %v", desc, err)
	}
}

func (s *Seq) repairAndCheck(db *sod.DB, files *model.Model, desc, site string) {
	if rerr := db.Repair(rec0()); rerr != nil {
		s.fail("iofault", "repair-failed:"+site, "%s: Repair fails: %v", desc, rerr)
	}
	if cerr := db.Control(); cerr != nil {
		s.fail("iofault", "control-fails-after-repair:"+site, "%s: Control still fails after Repair: %v", desc, cerr)
	}
	if v := s.subCheck(db, files, s.prng.Uint64(), 2, "after-repair", true); v != nil {
		s.fail("iofault", "wrong-after-repair:"+site+":"+v.Tag, "%s: after Repair the handle disagrees with the files: %s", desc, v.Msg)
	}
}
