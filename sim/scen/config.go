// Package scen holds the scenarios: workloads that drive the real package code
// through its public API inside a simulated world, and the oracles.
package scen

import (
	"fmt"
	"sort"
	"strings"
	"time"

	"github.com/0xrawsec/sod"

	"verifsim/model"
	"verifsim/shapes"
	"verifsim/simrt"
)

// Config is the drawn configuration of one run.
type Config struct {
	Cache     bool                  `json:"cache"`
	Compress  bool                  `json:"compress"`
	Async     bool                  `json:"async"`
	Threshold int                   `json:"threshold,omitempty"`
	TimeoutMs int64                 `json:"timeout_ms,omitempty"`
	OffStruct bool                  `json:"off_struct,omitempty"` // async off is expressed by a present, disabled Async value instead of nil
	Lower     bool                  `json:"lowercase_names"`
	Ext       string                `json:"ext"`
	Cons      map[string]model.Cons `json:"cons"`
}

func (c *Config) String() string {
	var parts []string
	for _, p := range sortedKeys(c.Cons) {
		k := c.Cons[p]
		s := p + ":"
		if k.Unique {
			s += "U"
		} else if k.Index {
			s += "I"
		}
		if k.Upper {
			s += "^"
		}
		if k.Lower {
			s += "v"
		}
		parts = append(parts, s)
	}
	a := "sync"
	if c.Async {
		a = fmt.Sprintf("async(%d,%dms)", c.Threshold, c.TimeoutMs)
	}
	return fmt.Sprintf("cache=%v gz=%v %s lower=%v ext=%s cons=[%s]", c.Cache, c.Compress, a, c.Lower, c.Ext, strings.Join(parts, " "))
}

// Class is a coarse label of the configuration (for distinct counting).
func (c *Config) Class() string {
	nI, nU := 0, 0
	for _, k := range c.Cons {
		if k.Unique {
			nU++
		} else if k.Index {
			nI++
		}
	}
	return fmt.Sprintf("c%v z%v a%v l%v e%s i%d u%d", b2i(c.Cache), b2i(c.Compress), b2i(c.Async), b2i(c.Lower), c.Ext, nI, nU)
}

func b2i(b bool) int {
	if b {
		return 1
	}
	return 0
}

func sortedKeys(m map[string]model.Cons) []string {
	out := make([]string, 0, len(m))
	for k := range m {
		out = append(out, k)
	}
	sort.Strings(out)
	return out
}

var stringPaths = map[string]bool{"S": true, "Up": true, "Lo": true, "In.S": true, "P.S": true, "Emb.ES": true, "Raw": true, "Der": true}

var exts = []string{".json", ".json", ".obj", ".x.y", ".json.gz", "", "dat"}

// Profile tunes generation for the property being checked.
type Profile struct {
	Name         string
	MaxOps       int
	UniqueMin    int
	UniqueMax    int
	IndexPct     int
	CasePct      int
	ForceSync    bool
	ForceAsync   bool
	NoAsync      bool
	Scribble     bool
	AsyncOracles bool // per-step ghost-file check (C10)
	// op weights
	W map[string]int
}

func GenConfig(r *simrt.Rand, p *Profile) *Config {
	c := &Config{Cons: map[string]model.Cons{}}
	c.Cache = r.Chance(1, 2)
	c.Compress = r.Chance(1, 3)
	c.Lower = r.Chance(1, 3)
	c.Ext = exts[r.Intn(len(exts))]
	switch {
	case p.ForceAsync:
		c.Async = true
	case p.ForceSync || p.NoAsync:
		c.Async = false
	default:
		c.Async = r.Chance(1, 4)
	}
	if c.Async {
		c.Threshold = []int{1, 2, 3, 1000}[r.Intn(4)]
		c.TimeoutMs = []int64{100, 250, 1000, 60000, 3600000}[r.Intn(5)]
	}
	c.OffStruct = r.Fork(31).Chance(1, 4)
	if p.UniqueMin == 0 && r.Fork(32).Chance(1, 12) {
		// a collection without any index, unique or case constraint
		return c
	}
	nU := p.UniqueMin
	if p.UniqueMax > p.UniqueMin {
		nU += r.Intn(p.UniqueMax - p.UniqueMin + 1)
	}
	paths := append([]string(nil), shapes.RecPaths...)
	perm := r.Perm(len(paths))
	for i := 0; i < nU && i < len(paths); i++ {
		pth := paths[perm[i]]
		if pth == "Lid" || pth == "Der" || pth == "Raw" {
			continue
		}
		// unique, declared with or without the index flag (a unique field is indexed anyway)
		k := model.Cons{Index: r.Bool(), Unique: true}
		if stringPaths[pth] && r.Chance(1, 2) {
			// uniqueness judged on canonical values
			if r.Bool() {
				k.Upper = true
			} else {
				k.Lower = true
			}
		}
		c.Cons[pth] = k
	}
	for _, pth := range paths {
		if _, ok := c.Cons[pth]; ok {
			continue
		}
		if r.Intn(100) < p.IndexPct {
			c.Cons[pth] = model.Cons{Index: true}
		}
	}
	for _, pth := range paths {
		// Raw feeds Transform: a case constraint on it would make Transform followed by
		// the case transform non-idempotent, which is the harness type's business, not the database's
		if stringPaths[pth] && pth != "Raw" && r.Intn(100) < p.CasePct {
			k := c.Cons[pth]
			if k.Upper || k.Lower {
				continue // never both
			}
			if r.Bool() {
				k.Upper = true
			} else {
				k.Lower = true
			}
			c.Cons[pth] = k
		}
	}
	return c
}

// Schema builds the sod schema of the configuration for shapes.Rec.
func (c *Config) Schema() sod.Schema {
	fields := sod.FieldDescriptors(&shapes.Rec{})
	for _, p := range sortedKeys(c.Cons) {
		k := c.Cons[p]
		if err := fields.Constraint(p, sod.Constraints{Index: k.Index, Unique: k.Unique, Upper: k.Upper, Lower: k.Lower}); err != nil {
			panic(fmt.Sprintf("config: %v", err))
		}
	}
	s := sod.NewCustomSchema(fields, c.Ext)
	s.Cache = c.Cache
	s.Compress = c.Compress
	if c.Async {
		s.AsyncWrites = sharedAsync(c.Threshold, c.TimeoutMs)
	} else if c.OffStruct {
		s.AsyncWrites = &sod.Async{Enable: false, Threshold: 2, Timeout: 100 * time.Millisecond}
	}
	return s
}

// asyncShare: within a run, schemas with equal async settings carry the very
// same *sod.Async value - what a program does that builds one Schema value and
// passes it to Create for several collections, or again after a restart or a
// settings switch. Reset by Setup; one simulation runs in a process at a time.
var asyncShare = map[string]*sod.Async{}

func sharedAsync(threshold int, timeoutMs int64) *sod.Async {
	k := fmt.Sprintf("%d/%d", threshold, timeoutMs)
	if a, ok := asyncShare[k]; ok {
		return a
	}
	var sc sod.Schema
	sc.Asynchrone(threshold, time.Duration(timeoutMs)*time.Millisecond)
	asyncShare[k] = sc.AsyncWrites
	return sc.AsyncWrites
}
