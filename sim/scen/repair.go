package scen

import (
	"bytes"
	"compress/gzip"
	"encoding/json"
	"errors"
	"fmt"
	"io/fs"
	"sort"
	"strings"

	"github.com/0xrawsec/sod"

	"verifsim/model"
	"verifsim/shapes"
	"verifsim/simrt"
)

// schemaDoc is a generic, number-preserving view of schema.json.
type schemaDoc map[string]interface{}

func parseSchemaDoc(b []byte) (schemaDoc, error) {
	dec := json.NewDecoder(bytes.NewReader(b))
	dec.UseNumber()
	var d schemaDoc
	if err := dec.Decode(&d); err != nil {
		return nil, err
	}
	return d, nil
}

func (d schemaDoc) index() map[string]interface{} {
	m, _ := d["index"].(map[string]interface{})
	return m
}

func (d schemaDoc) objectIds() map[string]interface{} {
	m, _ := d.index()["object-ids"].(map[string]interface{})
	return m
}

func (d schemaDoc) fieldIndexes() map[string]interface{} {
	m, _ := d.index()["fields"].(map[string]interface{})
	return m
}

// removeEntry drops object id from object-ids and its tuple from every field
// index (or from a single one when only != "").
func (d schemaDoc) removeEntry(id string, only string, keepObjectID bool) {
	if !keepObjectID {
		delete(d.objectIds(), id)
	}
	for name, fi := range d.fieldIndexes() {
		if only != "" && name != only {
			continue
		}
		f := fi.(map[string]interface{})
		idx, _ := f["index"].([]interface{})
		var out []interface{}
		for _, t := range idx {
			tup := t.([]interface{})
			if fmt.Sprint(tup[1]) == id {
				continue
			}
			out = append(out, t)
		}
		if out == nil {
			out = []interface{}{}
		}
		f["index"] = out
	}
}

func gz(b []byte) []byte {
	var buf bytes.Buffer
	w, _ := gzip.NewWriterLevel(&buf, gzip.BestSpeed)
	w.Write(b)
	w.Close()
	return buf.Bytes()
}

func objFileName(cfg *Config, uuid string) string {
	n := uuid + cfg.Ext
	if cfg.Compress {
		n += ".gz"
	}
	return n
}

type repairFaults struct {
	removedFiles   []int // lids
	addedFiles     []int
	removedEntries []int
	partial        string // field index damaged alone
	schemaRemoved  bool
	live           bool // the handle stayed open while the directory was damaged
	dirRemoved     bool // the whole collection directory disappeared
}

func (f *repairFaults) String() string {
	return fmt.Sprintf("removed files of lids %v, added files for lids %v, removed index entries of lids %v, partial=%q, schema removed=%v, directory removed=%v, handle kept open=%v",
		f.removedFiles, f.addedFiles, f.removedEntries, f.partial, f.schemaRemoved, f.dirRemoved, f.live)
}

func (f *repairFaults) sig() string {
	var p []string
	if len(f.removedFiles) > 0 {
		p = append(p, "rmfile")
	}
	if len(f.addedFiles) > 0 {
		p = append(p, "addfile")
	}
	if len(f.removedEntries) > 0 {
		p = append(p, "rmentry")
	}
	if f.partial != "" {
		p = append(p, "partial")
	}
	if f.schemaRemoved {
		p = append(p, "rmschema")
	}
	if f.dirRemoved {
		p = append(p, "rmdir")
	}
	if f.live {
		p = append(p, "live")
	}
	if len(p) == 0 {
		return "nofault"
	}
	return strings.Join(p, "+")
}

// RunRepair is the C11 scenario.
func RunRepair(p Params) *Result {
	prof := *Profiles["C11"]
	r := simrt.NewRand(simrt.Mix(p.Seed, 11))
	cfg := GenConfig(r.Fork(1), &prof)
	pools := GenPools(r.Fork(2), 3)
	ops := GenOps(r.Fork(3), cfg, pools, &prof)
	w := simrt.NewWorld(simrt.Mix(p.Seed, 12))
	skip := map[int]bool{}
	for _, i := range p.Skip {
		skip[i] = true
	}
	var kept []Op
	for i, o := range ops {
		if !skip[i] {
			kept = append(kept, o)
		}
	}
	s := NewSeq(w, cfg, &prof, pools, kept)
	fr := r.Fork(5)
	var faults *repairFaults
	s.Hooks.Final = func(s *Seq) {
		faults = s.repairScenario(fr, p.Extra)
	}
	cfg0 := *cfg
	s.Run()
	res := &Result{Params: p, V: s.V, Digest: w.Digest(), Class: cfg0.Class(), Steps: w.Steps,
		SimMs: int64(w.Now() / 1e6), NOps: len(kept), Stats: s.Stats, Config: cfg0.String(), Faults: map[string]int{}}
	for k, v := range s.Stats {
		if strings.HasPrefix(k, "fault:") {
			res.Faults[strings.TrimPrefix(k, "fault:")] = v
		}
	}
	if s.V != nil {
		for i, o := range ops {
			if !skip[i] {
				res.Ops = append(res.Ops, fmt.Sprintf("#%d %s", i, o.String()))
			}
		}
		if faults != nil {
			res.Ops = append(res.Ops, "faults applied to the directory: "+faults.String())
		}
	}
	if faults != nil {
		res.Sample = fmt.Sprintf("%d ops then %s", len(kept), faults.String())
		res.Class += " " + faults.sig()
	}
	return res
}

func (s *Seq) repairScenario(r *simrt.Rand, extra map[string]int) *repairFaults {
	s.curOp = &Op{K: "repair"}
	f := &repairFaults{}
	// a third of the runs damage the directory under a live handle (files only: its
	// index is in memory) and ask Control, the others damage the closed directory
	// and look at the first load
	f.live = r.Fork(77).Chance(1, 3)
	if f.live {
		if err := s.db.FlushAllAndCommit(rec0()); err != nil {
			s.fail("repair", "close-failed", "FlushAllAndCommit failed: %v", err)
		}
	} else if err := s.db.Close(); err != nil {
		s.fail("repair", "close-failed", "Close failed: %v", err)
	}
	fsys := s.W.FS
	dir := CollDir(s.Root, s.Cfg.Lower)
	lids := s.M.Lids()
	raw, ok := fsys.RawRead(dir + "/schema.json")
	if !ok {
		s.fail("repair", "no-schema", "schema.json missing after Close")
	}
	doc, err := parseSchemaDoc(raw)
	if err != nil {
		s.fail("repair", "schema-format", "schema.json: %v", err)
	}
	idOf := map[string]string{} // uuid -> object id
	for id, u := range doc.objectIds() {
		idOf[fmt.Sprint(u)] = id
	}
	indexed := map[string]bool{}
	files := map[string]bool{}
	for _, l := range lids {
		indexed[s.M.UUID[l]] = true
		files[s.M.UUID[l]] = true
	}
	mode := r.Intn(8)
	if f.live {
		mode = []int{0, 1, 2, 1, 2, 8, 8, 5}[r.Intn(8)] // 8: the whole directory disappears
	}
	// 0: no fault (no false positive), 1: remove files, 2: add files, 3: remove entries,
	// 4: remove schema, 5/6: mixture, 7: partial removal from one field index
	pick := func(n int) []int {
		perm := r.Perm(len(lids))
		var out []int
		for i := 0; i < n && i < len(lids); i++ {
			out = append(out, lids[perm[i]])
		}
		sort.Ints(out)
		return out
	}
	howMany := func() int {
		switch r.Intn(3) {
		case 0:
			return 1
		case 1:
			return len(lids)
		}
		return 1 + r.Intn(len(lids)+1)
	}
	if mode == 1 || mode == 5 || mode == 6 {
		if len(lids) > 0 {
			f.removedFiles = pick(howMany())
		}
	}
	if mode == 2 || mode == 5 {
		n := 1 + r.Intn(3)
		next := 9000
		tmp := s.M.CopyState()
		for i := 0; i < n; i++ {
			for try := 0; try < 10; try++ {
				x := GenRec(r, GenPools(r, 10), r.Bool())
				x.Lid = next
				tmp.Canon(x)
				if !model.Valid(x) || len(tmp.Conflicts(x, next)) > 0 {
					continue
				}
				u := fmt.Sprintf("aaaaaaaa-0000-4000-8000-%012d", next)
				if r.Bool() {
					u = fmt.Sprintf("AAAABBBB-CCCC-4DDD-8EEE-%012d", next) // upper-case hex digits are a valid uuid too
				}
				x.Initialize(u)
				tmp.Put(next, x)
				b, _ := json.Marshal(x)
				if s.Cfg.Compress {
					b = gz(b)
				}
				fsys.RawWrite(dir+"/"+objFileName(s.Cfg, u), b)
				files[u] = true
				f.addedFiles = append(f.addedFiles, next)
				next++
				s.stat("fault:add-object")
				break
			}
		}
	}
	if mode == 3 || mode == 6 {
		if len(lids) > 0 {
			f.removedEntries = pick(howMany())
		}
	}
	if mode == 7 && len(lids) > 0 {
		var names []string
		for n := range doc.fieldIndexes() {
			names = append(names, n)
		}
		sort.Strings(names)
		if len(names) > 0 {
			f.partial = names[r.Intn(len(names))]
			l := lids[r.Intn(len(lids))]
			if len(lids) >= 2 && r.Bool() {
				// same size, but one object twice and another one not at all: the entry of
				// lid l takes the object id of another object
				fi, _ := doc.fieldIndexes()[f.partial].(map[string]interface{})
				idx, _ := fi["index"].([]interface{})
				other := idOf[s.M.UUID[lids[(indexOf(lids, l)+1)%len(lids)]]]
				for _, t := range idx {
					if tu, ok := t.([]interface{}); ok && len(tu) == 2 && fmt.Sprint(tu[1]) == idOf[s.M.UUID[l]] {
						tu[1] = json.Number(other)
						break
					}
				}
				f.partial += " (duplicate id)"
				s.stat("fault:dup-index-entry-partial")
			} else {
				doc.removeEntry(idOf[s.M.UUID[l]], f.partial, true)
				s.stat("fault:rm-index-entry-partial")
			}
		}
	}
	for _, l := range f.removedFiles {
		u := s.M.UUID[l]
		fsys.RawRemove(dir + "/" + objFileName(s.Cfg, u))
		delete(files, u)
		s.stat("fault:rm-object")
	}
	for _, l := range f.removedEntries {
		u := s.M.UUID[l]
		doc.removeEntry(idOf[u], "", false)
		delete(indexed, u)
		s.stat("fault:rm-index-entry")
	}
	if len(f.removedEntries) > 0 || f.partial != "" {
		b, _ := json.Marshal(doc)
		fsys.RawWrite(dir+"/schema.json", b)
	}
	if mode == 8 {
		ents, _ := fsys.RawList(dir)
		for _, e := range ents {
			fsys.RawRemove(dir + "/" + e.Name)
		}
		fsys.RawRemove(dir)
		files = map[string]bool{}
		f.dirRemoved = true
		s.stat("fault:rm-collection-dir")
	}
	if !f.live && (mode == 4 || (mode == 5 && r.Chance(1, 4))) {
		fsys.RawRemove(dir + "/schema.json")
		f.schemaRemoved = true
		indexed = map[string]bool{}
		s.stat("fault:rm-schema")
	}
	// expectation
	diverged := len(indexed) != len(files)
	for u := range indexed {
		if !files[u] {
			diverged = true
		}
	}
	sig := f.sig()
	filesModel, ferr := ModelFromFiles(fsys, s.Cfg, s.Root)
	if f.dirRemoved {
		filesModel, ferr = model.New(s.Cfg.Cons), nil
	}
	if ferr != nil {
		s.fail("repair", "harness", "cannot decode the directory: %v", ferr)
	}
	before := dirObjectBytes(fsys, dir)
	if f.live {
		cerr := s.db.Control()
		if !diverged {
			if cerr != nil {
				s.fail("control", "false-positive:"+sig, "faults %s leave index and files in agreement, yet Control on the live handle reports %v", f.String(), cerr)
			}
			if v := s.subCheck(s.db, filesModel, r.Uint64(), 4, "healthy-directory", true); v != nil {
				s.fail("repair", "healthy-directory-wrong:"+v.Sig, "no divergence was introduced (%s), but %s", f.String(), v.Msg)
			}
			s.stat("probe:no-divergence-no-report")
			s.db.Close()
			return f
		}
		if cerr == nil {
			s.fail("repair", "divergence-unreported-by-control:"+sig, "%s: Control on the live handle reports nothing", f.String())
		}
		if !sod.IsIndexCorrupted(cerr) {
			s.fail("repair", "divergence-wrong-error:"+sig, "%s: Control fails with %v, not with index corruption", f.String(), cerr)
		}
		s.stat("probe:divergence-reported-live")
		s.repairAndVerify(s.db, filesModel, before, dir, f.String(), sig)
		return f
	}
	db := sod.Open(s.Root)
	_, lerr := db.Schema(rec0())
	if f.schemaRemoved {
		if lerr == nil || !(errors.Is(lerr, fs.ErrNotExist)) {
			s.fail("repair", "missing-schema-not-reported", "schema.json was removed, first load returns %v", lerr)
		}
		cerr := db.Create(rec0(), s.Cfg.Schema())
		if len(files) == 0 {
			if cerr != nil {
				s.fail("repair", "create-on-empty-failed", "Create on an empty collection failed: %v", cerr)
			}
		} else if cerr != nil && !sod.IsIndexCorrupted(cerr) {
			s.fail("repair", "create-error", "Create after schema removal fails with %v", cerr)
		}
		s.repairAndVerify(db, filesModel, before, dir, "after schema removal ("+f.String()+")", sig)
		return f
	}
	if f.partial != "" {
		// internal inconsistency: only required to be reported
		cerr := error(nil)
		if lerr == nil {
			cerr = db.Control()
		}
		if lerr == nil && cerr == nil {
			s.fail("repair", "internal-inconsistency-unreported", "the index of field %s alone was made inconsistent (an entry removed, or one object id twice and another not at all); neither the first load nor Control reports anything", f.partial)
		}
		s.stat("probe:partial-index-damage-reported")
		return f
	}
	if !diverged {
		if lerr != nil {
			s.fail("control", "false-positive-load:"+sig, "faults %s leave index and files in agreement, yet the first load reports %v", f.String(), lerr)
		}
		if cerr := db.Control(); cerr != nil {
			s.fail("control", "false-positive:"+sig, "faults %s leave index and files in agreement, yet Control reports %v", f.String(), cerr)
		}
		if v := s.subCheck(db, filesModel, r.Uint64(), 4, "healthy-directory", true); v != nil {
			s.fail("repair", "healthy-directory-wrong:"+v.Sig, "no divergence was introduced (%s), but %s", f.String(), v.Msg)
		}
		s.stat("probe:no-divergence-no-report")
		db.Close()
		return f
	}
	if lerr == nil {
		s.fail("repair", "divergence-unreported-at-load:"+sig, "%s: the first load of the collection reports nothing", f.String())
	}
	if !sod.IsIndexCorrupted(lerr) {
		s.fail("repair", "divergence-wrong-error:"+sig, "%s: the first load fails with %v, not with index corruption", f.String(), lerr)
	}
	if cerr := db.Control(); cerr == nil {
		s.fail("repair", "divergence-unreported-by-control:"+sig, "%s: Control reports nothing", f.String())
	}
	s.stat("probe:divergence-reported")
	s.repairAndVerify(db, filesModel, before, dir, f.String(), sig)
	return f
}

func dirObjectBytes(f *simrt.FS, dir string) map[string]string {
	out := map[string]string{}
	ents, _ := f.RawList(dir)
	for _, e := range ents {
		if e.Name == "schema.json" || e.Dir {
			continue
		}
		b, _ := f.RawRead(dir + "/" + e.Name)
		out[e.Name] = string(b)
	}
	return out
}

func (s *Seq) repairAndVerify(db *sod.DB, files *model.Model, before map[string]string, dir, desc, sig string) {
	if err := db.Repair(rec0()); err != nil {
		s.fail("repair", "repair-failed:"+sig, "%s: Repair fails: %v", desc, err)
	}
	after := dirObjectBytes(s.W.FS, dir)
	if len(after) != len(before) {
		s.fail("repair", "repair-touched-files:"+sig, "%s: Repair created or deleted object files", desc)
	}
	for n, b := range before {
		if after[n] != b {
			s.fail("repair", "repair-touched-files:"+sig, "%s: Repair modified %s", desc, n)
		}
	}
	if err := db.Control(); err != nil {
		s.fail("repair", "control-fails-after-repair:"+sig, "%s: Control fails after Repair: %v", desc, err)
	}
	if v := s.subCheck(db, files, s.prng.Uint64(), 4, "after-repair", true); v != nil {
		s.fail("repair", "wrong-after-repair:"+sig+":"+v.Sig, "%s: after Repair reads/searches disagree with the files: %s", desc, v.Msg)
	}
	if err := db.Close(); err != nil {
		s.fail("repair", "close-failed", "%s: Close after Repair fails: %v", desc, err)
	}
	db2 := sod.Open(s.Root)
	if _, err := db2.Schema(rec0()); err != nil {
		s.fail("repair", "reopen-after-repair-fails:"+sig, "%s: after Repair and Close the next load reports %v", desc, err)
	}
	if v := s.subCheck(db2, files, s.prng.Uint64(), 4, "reopen-after-repair", true); v != nil {
		s.fail("repair", "wrong-after-repair-reopen:"+sig+":"+v.Sig, "%s: after Repair, Close and reopen: %s", desc, v.Msg)
	}
	db2.Close()
	s.stat("probe:repaired")
}

var _ = shapes.Derive

func indexOf(l []int, x int) int {
	for i, v := range l {
		if v == x {
			return i
		}
	}
	return 0
}
