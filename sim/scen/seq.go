package scen

import (
	"errors"
	"fmt"
	"io/fs"
	"math"
	"os"
	"runtime/debug"
	"sort"
	"strings"
	"time"

	"github.com/0xrawsec/sod"
	"github.com/google/uuid"

	"verifsim/model"
	"verifsim/shapes"
	"verifsim/simrt"
)

// Violation is the first divergence of a run from its oracle.
type Violation struct {
	Tag  string `json:"tag"`  // which oracle
	Sig  string `json:"sig"`  // stable signature (known-findings matching)
	Msg  string `json:"msg"`  // human-readable detail
	Step int    `json:"step"` // op index
	Op   string `json:"op"`
}

type stopRun struct{}

type heldSearch struct {
	s       *sod.Search
	deleted map[int]bool // matched objects deleted (even if re-created) since the evaluation
	expect  map[int]bool
	errExp  bool
	q       *Query
	step    int
}

// Seq is the single-client history machine.
type Seq struct {
	W     *simrt.World
	Cfg   *Config
	Prof  *Profile
	Pools *Pools
	Ops   []Op
	Root  string

	db     *sod.DB
	M      *model.Model
	V      *Violation
	held   map[int]*heldSearch
	issued map[string]bool

	step           int
	curOp          *Op
	rejected       bool // the last write was rejected
	sinceReopen    int
	quiescent      bool // nothing can be pending (sync mode, or after flush+commit / close)
	prng           *simrt.Rand
	Stats          map[string]int
	hooks          []hookEv
	hookOn         bool
	bulkHooks      bool // several chunks: file mutations of earlier chunks precede later hooks
	Hooks          Hooks
	KnownSample    map[string]string
	NoReopen       bool                    // differential attribution for C04: restarts become no-ops
	History        map[int]map[string]bool // every accepted value of every object (async crash oracle)
	everAsync      bool
	small          *smallModel
	Prop           string            // property being checked (first-divergence attribution), "" in sub-checks
	Foreign        *Violation        // first divergence of a soft oracle the property does not own
	smallAsync     bool              // async setting of the second collection (it has its own schema)
	smallDirty     bool              // the second collection may have pending async writes
	smallTimeoutMs int64             // and the timeout of its flusher
	Loose          map[string]string // outcomes the model leaves open, keyed by call (compared across configurations by C12)
}

// Hooks lets other scenarios (crash, iofault, diff, ...) observe the run.
type Hooks struct {
	BeforeOp func(s *Seq, i int, op *Op)
	AfterOp  func(s *Seq, i int, op *Op)
	Final    func(s *Seq) // after the final checks, on a freshly reopened handle
}

type hookEv struct {
	seq  uint64
	kind byte // 'T' 'V'
	lid  int
	json string
}

func (s *Seq) stat(k string) { s.Stats[k]++ }

// fail records the first divergence and unwinds the run.
func (s *Seq) fail(tag, sig, format string, args ...interface{}) {
	if s.V == nil {
		opk := ""
		if s.curOp != nil {
			opk = s.curOp.K
		}
		s.V = &Violation{Tag: tag, Sig: tag + ":" + sig, Msg: fmt.Sprintf(format, args...), Step: s.step, Op: opk}
	}
	panic(stopRun{})
}

// softOracle runs a purely observational oracle (one that looks at the disk and
// never changes model or handle). When the property being checked does not own
// the oracle, its divergence is remembered as the run's foreign divergence and
// the history goes on, so that an oracle the property does own can still fire
// on what follows (a Repair that drops the constraints is seen by the layout
// oracle first, and by the uniqueness oracle at the next duplicate).
func (s *Seq) softOracle(tag string, f func()) {
	if s.Prop == "" || s.V != nil || (tag != "" && OwnsTag(s.Prop, tag)) {
		f()
		return
	}
	defer func() {
		if r := recover(); r != nil {
			if _, ok := r.(stopRun); ok && s.V != nil && observational[s.V.Tag] && !OwnsTag(s.Prop, s.V.Tag) {
				if s.Foreign == nil {
					s.Foreign = s.V
				}
				s.stat("foreign-divergence-continued:" + s.V.Tag)
				s.V = nil
				return
			}
			panic(r)
		}
	}()
	f()
}

// observational oracles compare what the handle or the disk shows with the
// model and change neither: the history can go on after one of them diverged.
var observational = map[string]bool{"layout": true, "read": true, "search": true, "order": true, "case": true, "control": true, "args": true}

// guard runs f, converting a panic of the code under test into a violation.
func (s *Seq) guard(f func()) {
	defer func() {
		if r := recover(); r != nil {
			if _, ok := r.(stopRun); ok {
				return
			}
			if s.V == nil {
				st := string(debug.Stack())
				s.V = &Violation{Tag: "panic", Sig: "panic:" + panicSite(st), Msg: fmt.Sprintf("panic: %v\n%s", r, trimStack(st)), Step: s.step}
				if s.curOp != nil {
					s.V.Op = s.curOp.K
				}
			}
		}
	}()
	f()
}

// panicSite extracts the innermost frame of package sod from a stack.
func panicSite(st string) string {
	lines := strings.Split(st, "\n")
	seenPanic := false
	for _, l := range lines {
		if strings.HasPrefix(l, "panic(") {
			seenPanic = true
			continue
		}
		if seenPanic && strings.HasPrefix(l, "github.com/0xrawsec/sod.") {
			f := strings.TrimPrefix(l, "github.com/0xrawsec/sod.")
			if i := strings.LastIndex(f, "("); i > 0 {
				f = f[:i]
			}
			return f
		}
	}
	return "unknown"
}

func trimStack(st string) string {
	lines := strings.Split(st, "\n")
	if len(lines) > 40 {
		lines = lines[:40]
	}
	return strings.Join(lines, "\n")
}

func rec0() *shapes.Rec { return &shapes.Rec{} }

// ErrClass maps an error of the package to the model's classes.
func ErrClass(err error) string {
	switch {
	case err == nil:
		return model.EOK
	case sod.IsUnique(err):
		return model.EUnique
	case errors.Is(err, sod.ErrInvalidObject):
		return model.EInvalid
	case errors.Is(err, sod.ErrWrongObjectType):
		return model.EWrongType
	case errors.Is(err, sod.ErrCasting):
		return model.ECasting
	case errors.Is(err, sod.ErrUnkownField):
		return model.EUnknownF
	case errors.Is(err, sod.ErrUnknownKeyType):
		return model.EKeyType
	case errors.Is(err, sod.ErrUnkownSearchOperator):
		return model.EOperator
	case IsNotFound(err):
		return model.ENotFound
	}
	return model.EAnyErr
}

// IsNotFound is the not-found class of DESIGN appendix A.
func IsNotFound(err error) bool {
	return err != nil && (os.IsNotExist(err) || errors.Is(err, fs.ErrNotExist) || sod.IsNoObjectFound(err))
}

// NewSeq prepares a run. The world must be fresh.
func NewSeq(w *simrt.World, cfg *Config, prof *Profile, pools *Pools, ops []Op) *Seq {
	return &Seq{W: w, Cfg: cfg, Prof: prof, Pools: pools, Ops: ops, Root: "/db",
		M: model.New(cfg.Cons), held: map[int]*heldSearch{}, issued: map[string]bool{}, Stats: map[string]int{}}
}

// Setup installs the process-wide seams for this world.
func Setup(w *simrt.World, cfg *Config) {
	uuid.SetRand(w.UUIDRand())
	sod.LowercaseNames = cfg.Lower
	asyncShare = map[string]*sod.Async{}
	shapes.OnTransform = nil
	shapes.OnValidate = nil
}

// Open opens a handle and creates the collection.
func (s *Seq) Open(create bool) {
	s.db = sod.Open(s.Root)
	if create {
		if err := s.db.Create(rec0(), s.Cfg.Schema()); err != nil {
			s.fail("read", "create-failed", "Create failed: %v", err)
		}
		s.smallOpen()
	}
}

func msDur(ms int64) time.Duration { return time.Duration(ms) * time.Millisecond }

// Run executes the history as the main task of the world.
func (s *Seq) Run() {
	Setup(s.W, s.Cfg)
	s.installHooks()
	s.W.Run(func() {
		s.guard(func() {
			s.Open(true)
			s.quiescent = true
			for i := range s.Ops {
				s.step = i
				s.curOp = &s.Ops[i]
				s.prng = simrt.NewRand(simrt.Mix(s.Ops[i].Seed, 77))
				if s.Hooks.BeforeOp != nil {
					s.Hooks.BeforeOp(s, i, s.curOp)
				}
				s.exec(s.curOp)
				if s.Hooks.AfterOp != nil {
					s.Hooks.AfterOp(s, i, s.curOp)
				}
				s.W.Note("op:" + s.curOp.K)
			}
			s.step = len(s.Ops)
			s.curOp = &Op{K: "final"}
			s.prng = simrt.NewRand(simrt.Mix(s.W.Seed, 78))
			s.finalChecks()
			if s.Hooks.Final != nil {
				s.Hooks.Final(s)
			}
		})
	})
	s.absorbWorld()
}

// absorbWorld turns world-level failures (daemon panic, deadlock) into the
// run's violation if none was recorded yet.
func (s *Seq) absorbWorld() {
	if s.V != nil {
		return
	}
	w := s.W
	if len(w.Panics) > 0 {
		p := w.Panics[0]
		s.V = &Violation{Tag: "panic", Sig: "panic:" + panicSite(p.Stack), Msg: fmt.Sprintf("task %s panicked: %s\n%s", p.Task, p.Value, trimStack(p.Stack)), Step: s.step}
		return
	}
	if w.Deadlock != nil {
		s.V = &Violation{Tag: "deadlock", Sig: "deadlock:" + w.Deadlock.Kind, Msg: w.Deadlock.String(), Step: s.step}
	}
}

func (s *Seq) finalChecks() {
	s.fullSweep("final")
	// close, reopen and look again: everything accepted must be there
	if !s.NoReopen || s.Hooks.Final != nil {
		s.reopen(true, true)
	}
}

// ---------------------------------------------------------------- op exec

func (s *Seq) exec(op *Op) {
	s.stat("op:" + op.K)
	switch op.K {
	case "save":
		s.opSave(op)
	case "resave":
		s.opResave(op)
	case "del":
		s.opDelete(op)
	case "delall":
		s.opDeleteAll()
	case "sdel":
		s.opSearchDelete(op)
	case "many", "bulk":
		s.opBatch(op)
	case "reads":
		s.lightReads("reads")
	case "sweep":
		s.fullSweep("sweep")
	case "repair":
		s.opRepair()
	case "drop":
		s.opDrop()
	case "misuse":
		s.opMisuse(op)
	case "getabsent":
		s.opGetAbsent(op)
	case "hold":
		s.opHold(op)
	case "collect":
		s.opCollect(op)
	case "reopen":
		if !s.NoReopen {
			s.reopen(true, op.Flag)
		}
	case "abandon":
		// dropping a handle is a crash at an operation boundary; only without any
		// flusher on it (a surviving flusher would be a second writer on the directory)
		// and only in a committed state (Flush writes an object without committing)
		if !s.Cfg.Async && !s.smallAsync && !s.NoReopen && s.quiescent {
			s.reopen(false, op.Flag)
		}
	case "flush":
		s.opFlush(op)
	case "sleep":
		s.sleep(time.Duration(op.Ms) * time.Millisecond)
	case "create":
		s.opCreate(op)
	case "await":
		s.opAwait(op)
	case "small":
		s.opSmall()
	}
	if s.Prof.AsyncOracles && s.Cfg.Async {
		s.checkNoGhostFiles("after-" + op.K)
	}
	s.sinceReopen++
}

// build makes the object passed to the database for lid.
func (s *Seq) build(lid int, r *shapes.Rec, nan string) *shapes.Rec {
	o := model.Clone(r)
	o.Initialize("")
	o.Lid = lid
	if u, ok := s.M.UUID[lid]; ok {
		o.Initialize(u)
	}
	// strings that are not valid UTF-8 (carried as marker runes in the history)
	o.S, o.Up, o.Lo, o.ES, o.In.S = shapes.RawBytes(o.S), shapes.RawBytes(o.Up), shapes.RawBytes(o.Lo), shapes.RawBytes(o.ES), shapes.RawBytes(o.In.S)
	if o.P != nil {
		o.P.S = shapes.RawBytes(o.P.S)
	}
	if m, ok := o.Any.(map[string]interface{}); ok && m["$box"] != nil {
		b := shapes.AnyBox{Box: fmt.Sprint(m["$box"]), S: fmt.Sprint(m["S"])}
		if n, ok := m["N"].(float64); ok {
			b.N = int32(n)
		}
		if l, ok := m["L"].([]interface{}); ok {
			for _, v := range l {
				if f, ok := v.(float64); ok {
					b.L = append(b.L, int(f))
				}
			}
		}
		o.Any = b
	}
	switch nan {
	case "nan":
		o.F64 = math.NaN()
	case "inf":
		o.F32 = float32(math.Inf(1))
	case "chan":
		o.Any = make(chan int)
	}
	return o
}

// expectWrite returns the canonical value and the set of rejection classes
// that apply to writing o (empty set: must be accepted).
func (s *Seq) expectWrite(m *model.Model, o *shapes.Rec, nan string) (*shapes.Rec, map[string]bool) {
	classes := map[string]bool{}
	var exp *shapes.Rec
	if nan == "" {
		exp = model.Clone(o)
	} else {
		// clone what JSON can carry, the rest is irrelevant: the write must fail
		c := *o
		c.F64, c.F32, c.Any = 0, 0, nil
		exp = model.Clone(&c)
		classes[model.EUnserial] = true
	}
	m.Canon(exp)
	if !model.Valid(exp) {
		classes[model.EInvalid] = true
	}
	if len(m.Conflicts(exp, o.Lid)) > 0 {
		classes[model.EUnique] = true
	}
	return exp, classes
}

func classList(m map[string]bool) string {
	var l []string
	for k := range m {
		l = append(l, k)
	}
	sort.Strings(l)
	return strings.Join(l, "|")
}

// judgeWrite compares the outcome of a single write with the expectation.
func (s *Seq) judgeWrite(what string, classes map[string]bool, err error) (accepted bool) {
	got := ErrClass(err)
	if len(classes) == 0 {
		if err != nil {
			tag := "read"
			switch got {
			case model.EUnique:
				tag = "unique"
			case model.EInvalid:
				tag = "hooks"
			}
			s.fail(tag, "legit-write-rejected:"+got, "%s: a legitimate write was rejected: %v", what, err)
		}
		return true
	}
	if err == nil {
		tag := "reject"
		switch {
		case classes[model.EUnique]:
			tag = "unique"
		case classes[model.EInvalid]:
			tag = "hooks"
		}
		s.fail(tag, "bad-write-accepted:"+classList(classes), "%s: write must be rejected (%s) but was accepted", what, classList(classes))
	}
	if got == model.EAnyErr && classes[model.EUnserial] {
		return false
	}
	if !classes[got] {
		tag := "reject"
		if classes[model.EUnique] {
			tag = "unique"
		} else if classes[model.EInvalid] {
			tag = "hooks"
		}
		s.fail(tag, "wrong-error-class:"+classList(classes)+":"+got, "%s: expected rejection class %s, got %q (%v)", what, classList(classes), got, err)
	}
	return false
}

func (s *Seq) checkUUIDAfterWrite(o *shapes.Rec, lid int) {
	u := o.UUID()
	if u == "" {
		s.fail("read", "no-uuid", "stored object lid=%d has no UUID", lid)
	}
	if old, ok := s.M.UUID[lid]; ok {
		if old != u {
			s.fail("read", "uuid-changed", "object lid=%d changed UUID %s -> %s", lid, old, u)
		}
	} else {
		if s.issued[u] {
			s.fail("read", "uuid-reused", "new object lid=%d received an already issued UUID %s", lid, u)
		}
	}
	s.issued[u] = true
}

func (s *Seq) opSave(op *Op) {
	o := s.build(op.Lid, op.Rec, op.NaN)
	exp, classes := s.expectWrite(s.M, o, op.NaN)
	if _, known := s.M.UUID[op.Lid]; !known && op.Flag {
		o.Initialize(fmt.Sprintf("ABCDEF%02X-0A0B-4C0D-8E0F-%012d", op.Lid%256, op.Lid))
		s.stat("probe:caller-chosen-uuid")
	}
	s.hookBegin()
	err := s.db.InsertOrUpdate(o)
	accepted := s.judgeWrite(fmt.Sprintf("InsertOrUpdate(lid=%d)", op.Lid), classes, err)
	s.checkHooks([]*shapes.Rec{exp}, accepted, classes)
	s.afterWrite(accepted)
	if accepted {
		s.checkUUIDAfterWrite(o, op.Lid)
		exp.Initialize(o.UUID())
		s.modelPut(op.Lid, exp)
		if s.Prof.Scribble {
			Scribble(o)
		}
		if op.Mode == "quiet" {
			return // no further call: the next operation observes the disk only
		}
		s.lightReadsOf("after-save", []int{op.Lid})
	} else {
		if s.Prof.Scribble {
			Scribble(o)
		}
		s.lightReadsOf("after-rejected-save", []int{op.Lid})
	}
}

// afterWrite maintains the bookkeeping shared by all writes.
func (s *Seq) afterWrite(accepted bool) {
	s.rejected = !accepted
	if s.Cfg.Async && accepted {
		s.quiescent = false
	}
	if accepted {
		s.syncCommitted()
	}
}

// syncCommitted: in synchronous mode a successful mutating call ends with a
// commit of the schema: files and schema on disk agree again.
func (s *Seq) syncCommitted() {
	if !s.Cfg.Async {
		s.quiescent = !s.smallDirty
	}
}

func (s *Seq) opResave(op *Op) {
	u, ok := s.M.UUID[op.Lid]
	if !ok {
		return
	}
	_, live := s.M.Objs[op.Lid]
	o, err := s.db.GetByUUID(rec0(), u)
	if !live {
		if err == nil {
			s.fail(s.readTag(), "absent-get-succeeded", "GetByUUID of deleted lid=%d succeeded", op.Lid)
		}
		return
	}
	if err != nil {
		s.fail(s.readTag(), "live-get-failed", "GetByUUID of live lid=%d failed: %v", op.Lid, err)
	}
	r := o.(*shapes.Rec)
	if op.Flag {
		// read-modify-write that gets refused: the caller changes what the read returned in
		// place (through the containers it holds) and makes it invalid; neither the changes
		// nor the refused call may show up in later reads
		for i := range r.AR {
			for j := range r.AR[i].Tags {
				r.AR[i].Tags[j] = "REFUSED"
			}
			if r.AR[i].Attrs != nil {
				r.AR[i].Attrs["refused"] = 1
			}
			if r.AR[i].Sub != nil {
				r.AR[i].Sub.S = "REFUSED"
			}
		}
		for i := range r.LS {
			for j := range r.LS[i].Tags {
				r.LS[i].Tags[j] = "REFUSED"
			}
		}
		for _, p := range r.AP {
			if p != nil {
				p.S = "REFUSED"
			}
		}
		for k := range r.M {
			r.M[k] = -1
		}
		r.Raw = "bad"
		s.stat("probe:read-modify-refused")
	}
	exp, classes := s.expectWrite(s.M, r, "")
	s.hookBegin()
	err = s.db.InsertOrUpdate(r)
	accepted := s.judgeWrite(fmt.Sprintf("re-save(lid=%d)", op.Lid), classes, err)
	s.checkHooks([]*shapes.Rec{exp}, accepted, classes)
	s.afterWrite(accepted)
	if accepted {
		s.checkUUIDAfterWrite(r, op.Lid)
		exp.Initialize(r.UUID())
		s.modelPut(op.Lid, exp)
	}
	s.lightReadsOf("after-resave", []int{op.Lid})
}

func (s *Seq) opDelete(op *Op) {
	u, known := s.M.UUID[op.Lid]
	o := rec0()
	if known {
		o.Initialize(u)
	} else {
		o.Initialize(fmt.Sprintf("00000000-0000-4000-8000-%012d", op.Lid))
	}
	_, live := s.M.Objs[op.Lid]
	err := s.db.Delete(o)
	if live && err != nil {
		s.fail("read", "delete-failed", "Delete of live lid=%d failed: %v", op.Lid, err)
	}
	s.modelDelete(op.Lid)
	s.rejected = false
	if err == nil {
		s.syncCommitted()
	}
	s.lightReadsOf("after-delete", []int{op.Lid})
}

func (s *Seq) opDeleteAll() {
	if err := s.db.DeleteAll(rec0()); err != nil {
		s.fail("read", "deleteall-failed", "DeleteAll failed: %v", err)
	}
	for _, l := range s.M.Lids() {
		s.modelDelete(l)
	}
	s.rejected = false
	s.syncCommitted()
	s.lightReads("after-deleteall")
}

func (s *Seq) opGetAbsent(op *Op) {
	s.probeAbsentLid(op.Lid)
}

func (s *Seq) opFlush(op *Op) {
	var err error
	switch op.Mode {
	case "all":
		err = s.db.FlushAll(rec0())
	case "allcommit":
		err = s.db.FlushAllAndCommit(rec0())
		if err == nil && s.smallDirty {
			err = s.db.FlushAllAndCommit(small0())
			s.smallDirty = err != nil
		}
		if err == nil {
			s.quiescent = true
		}
	case "commit":
		err = s.db.Commit(rec0())
	case "one", "onecommit":
		u, ok := s.M.UUID[op.Lid]
		if !ok {
			return
		}
		// Flush identifies an object; what reaches the disk is the accepted version that
		// is pending (if any), never what the caller's object holds: the harness passes
		// an object with the right identifier and garbage in it, also for objects that
		// were deleted meanwhile (nothing may be written for those)
		o := rec0()
		if cur, live := s.M.Objs[op.Lid]; live && op.Lid%2 == 0 {
			o = model.Clone(cur)
		}
		o.Initialize(u)
		Scribble(o)
		if op.Mode == "one" {
			err = s.db.Flush(o)
		} else {
			err = s.db.FlushAndCommit(o)
		}
		if s.Cfg.Async {
			// an object file may have been written after the last commit of the schema
			s.quiescent = false
		}
		if op.Mode == "onecommit" && err == nil {
			s.syncCommitted()
		}
		s.stat("flush-one")
	}
	if op.Mode == "commit" && err == nil {
		s.syncCommitted()
	}
	if err != nil {
		s.fail("read", "flush-failed:"+op.Mode, "flush(%s) failed: %v", op.Mode, err)
	}
	if s.Cfg.Async && (op.Mode == "all" || op.Mode == "allcommit") {
		s.afterFlushCall(op.Mode)
	}
}

func (s *Seq) opCreate(op *Op) {
	cfg := s.Cfg
	if op.NCfg != nil {
		// only the cache / async settings change; everything else is the run's configuration
		nc := *s.Cfg
		nc.Cache, nc.Async, nc.Threshold, nc.TimeoutMs, nc.OffStruct = op.NCfg.Cache, op.NCfg.Async, op.NCfg.Threshold, op.NCfg.TimeoutMs, op.NCfg.OffStruct
		cfg = &nc
	}
	if op.Mode == "cycle" && op.NCfg != nil && cfg.Async {
		off := *cfg
		off.Async, off.OffStruct = false, op.Flag
		if err := s.db.Create(rec0(), off.Schema()); err != nil {
			s.fail("guard", "compatible-create-failed", "Create with a compatible schema (async off) failed: %v", err)
		}
		s.stat("create-async-cycle")
		if op.Lid%2 == 0 {
			// long enough for the flusher to notice that it is not wanted any more
			s.sleep(250 * time.Millisecond)
		}
	}
	err := s.db.Create(rec0(), cfg.Schema())
	if err != nil {
		s.fail("guard", "compatible-create-failed", "Create with a compatible schema failed: %v", err)
	}
	if op.NCfg != nil {
		s.stat("create-switch")
		// settings switch: the model state must be unaffected
		wasAsync := s.Cfg.Async
		nc := *s.Cfg
		nc.Cache, nc.Async, nc.Threshold, nc.TimeoutMs, nc.OffStruct = cfg.Cache, cfg.Async, cfg.Threshold, cfg.TimeoutMs, cfg.OffStruct
		s.Cfg = &nc
		if wasAsync && !nc.Async {
			s.stat("create-async-off")
		}
		if !wasAsync && nc.Async {
			s.stat("create-async-on")
		}
	}
	tagSave := s.rejected
	s.rejected = false
	s.lightReads("after-create")
	s.rejected = tagSave
}

// reopen closes (or abandons) the handle and opens a new one.
func (s *Seq) reopen(closeFirst bool, create bool) {
	plan := s.genPlan(s.prng.Fork(1), 10)
	s.runPlan(plan, "", "before-reopen")
	if closeFirst {
		if err := s.db.Close(); err != nil {
			s.fail("reopen", "close-failed", "Close failed: %v", err)
		}
		s.stat("close-reopen")
	} else {
		s.stat("abandon-reopen")
	}
	s.quiescent = true
	s.smallDirty = false
	s.checkLayout("after-close")
	s.smallLayout("after-close")
	s.held = map[int]*heldSearch{}
	s.db = sod.Open(s.Root)
	if create {
		if err := s.db.Create(rec0(), s.Cfg.Schema()); err != nil {
			s.fail("reopen", "create-after-reopen-failed", "Create after reopen failed: %v", err)
		}
		if s.small != nil {
			if err := s.db.Create(small0(), s.smallSchema()); err != nil {
				s.fail("reopen", "create-after-reopen-failed", "Create of the second collection after reopen failed: %v", err)
			}
			s.smallAsync = s.Cfg.Async
			s.smallTimeoutMs = s.Cfg.TimeoutMs
		}
	}
	s.sinceReopen = 0
	s.rejected = false
	if s.curOp != nil && s.curOp.Mode == "quiet" {
		// no call on the new handle: the next operation of the history is the first one
		s.stat("reopen-quiet")
		return
	}
	s.runPlan(plan, "reopen", "after-reopen")
	s.smallSweep("reopen", "after-reopen")
	for _, p := range s.M.ConsPaths() {
		if s.M.Cons[p].Indexed() {
			for _, l := range s.M.Lids() {
				v := s.M.FieldOf(l, p)
				if (v.K == 'i' && (v.I > 1<<53 || v.I < -(1<<53))) || (v.K == 'u' && v.U > 1<<53) {
					s.stat("probe:reload-index-value-beyond-2^53")
				}
			}
		}
	}
}

// readTag is the oracle tag for read mismatches in the current context.
func (s *Seq) readTag() string {
	if s.rejected && s.Prop != "C01" {
		return "reject"
	}
	// C01 quantifies over every point of any sequence of calls, refused ones included:
	// a read path that misreports the stored set right after a refused write is its violation too
	return "read"
}

// modelDelete removes lid from the model and remembers the deletion for
// every search held at this moment.
func (s *Seq) modelDelete(lid int) {
	if _, live := s.M.Objs[lid]; live {
		for _, h := range s.held {
			if h.expect[lid] {
				if h.deleted == nil {
					h.deleted = map[int]bool{}
				}
				h.deleted[lid] = true
			}
		}
	}
	s.M.Delete(lid)
}

// modelPut stores the accepted value and remembers it in the object's history
// (the async crash oracle accepts any accepted version in a file).
func (s *Seq) modelPut(lid int, r *shapes.Rec) {
	s.M.Put(lid, r)
	if s.History == nil {
		s.History = map[int]map[string]bool{}
	}
	if s.History[lid] == nil {
		s.History[lid] = map[string]bool{}
	}
	s.History[lid][model.JSON(r)] = true
}

// opRepair: Repair on a healthy collection (nothing pending) changes nothing
// that can be observed: same objects, same search results, same constraints.
func (s *Seq) opRepair() {
	if !s.quiescent && !s.Cfg.Async {
		return // a sync-mode Flush(o) left an object file ahead of the schema: not a healthy state
	}
	// on an asynchronous collection accepted writes may be pending: they are part of
	// the healthy state, Repair must not lose them
	pending := !s.quiescent
	if err := s.db.Repair(rec0()); err != nil {
		s.fail("repair", "healthy-repair-failed", "Repair on a healthy collection failed: %v", err)
	}
	if err := s.db.Control(); err != nil && !s.smallDirty {
		s.fail("repair", "control-fails-after-repair:healthy", "Control fails after Repair on a healthy collection: %v", err)
	}
	s.stat("probe:repair-on-healthy")
	if pending {
		s.stat("probe:repair-with-pending-writes")
	}
	s.checkLayout("after-healthy-repair")
	s.lightReads("after-healthy-repair")
}

// opMisuse: the documented misuse of an Assign target panics; the caller may
// recover, and the handle must keep working (no lock stays held).
func (s *Seq) opMisuse(op *Op) {
	panicked := false
	func() {
		defer func() {
			if r := recover(); r != nil {
				if _, stop := r.(stopRun); stop {
					panic(r)
				}
				panicked = true
			}
		}()
		var wrong []*shapes.Small // elements of another type
		var notPtr shapes.Small
		switch op.Mode {
		case "assignall":
			s.db.AssignAll(rec0(), &wrong)
		case "assign":
			s.db.Search(rec0(), "Lid", ">=", 0).Assign(&wrong)
		case "assignone":
			s.db.Search(rec0(), "Lid", ">=", 0).AssignOne(&notPtr)
		case "assignunique":
			s.db.Search(rec0(), "Lid", ">=", 0).AssignUnique(&notPtr)
		}
	}()
	if panicked {
		s.stat("probe:assign-misuse-panicked")
	} else {
		s.stat("probe:assign-misuse-returned")
	}
	// a writer and a reader after the recovered panic
	if err := s.db.Commit(rec0()); err != nil {
		s.fail("read", "commit-failed", "Commit after a recovered Assign panic failed: %v", err)
	}
	s.lightReads("after-assign-misuse")
}

// opDrop: Drop removes every collection, on disk and on the handle; the handle
// can be used again afterwards (Create), and nothing of the dropped collections
// comes back (no pending write, no commit of a flusher, no cached object).
func (s *Seq) opDrop() {
	if err := s.db.Drop(); err != nil {
		s.fail("read", "drop-failed", "Drop failed: %v", err)
	}
	for _, l := range s.M.Lids() {
		s.modelDelete(l)
	}
	s.small = nil
	s.held = map[int]*heldSearch{}
	s.rejected = false
	if ents, ok := s.W.FS.RawList(s.Root); ok && len(ents) > 0 {
		s.fail("read", "drop-left-files", "after Drop the database directory still holds %d entries", len(ents))
	}
	// let time pass: a flusher of a dropped collection must not bring anything back
	s.sleep(time.Duration(s.Cfg.TimeoutMs+200) * time.Millisecond)
	s.W.Settle()
	if ents, ok := s.W.FS.RawList(s.Root); ok && len(ents) > 0 {
		s.fail("read", "dropped-files-came-back", "some time after Drop the database directory holds %d entries again (first: %s)", len(ents), ents[0].Name)
	}
	if err := s.db.Create(rec0(), s.Cfg.Schema()); err != nil {
		s.fail("read", "create-failed", "Create after Drop failed: %v", err)
	}
	s.smallOpen()
	s.quiescent, s.smallDirty = true, false
	s.stat("probe:drop-and-recreate")
	s.lightReads("after-drop")
}

// sleep: the client stops calling for d of simulated time. Clock drift is off
// meanwhile: drift stands for the time running code takes and lets a sleeping task
// wake inside a call; with nobody calling, tasks that poll (every flusher of every
// handle the history ever opened) must run at their nominal pace, or their own
// count of elapsed time (the flusher adds up its 100 ms steps) falls behind the
// clock by a factor that grows with the number of tasks, which no real system shows.
func (s *Seq) sleep(d time.Duration) {
	save := s.W.Drift
	s.W.Drift = 0
	s.W.Sleep(d)
	s.W.Drift = save
}
