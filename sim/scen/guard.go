package scen

import (
	"errors"
	"fmt"
	"sort"

	"github.com/0xrawsec/sod"

	"verifsim/model"
	"verifsim/shapes"
	sadded "verifsim/shapesv/added"
	snested "verifsim/shapesv/nested"
	snestedadd "verifsim/shapesv/nestedadd"
	sptr "verifsim/shapesv/ptrstruct"
	sremoved "verifsim/shapesv/removed"
	sret1 "verifsim/shapesv/retyped1"
	sret2 "verifsim/shapesv/retyped2"
	sret3 "verifsim/shapesv/retyped3"
	ssame "verifsim/shapesv/same"
	"verifsim/simrt"
)

// guardOps runs every public operation for a record type T on a fresh handle
// and returns the error of each.
func guardOps[T any, PT interface {
	*T
	sod.Object
}](root, uuid string, schema sod.Schema) (map[string]error, int) {
	db := sod.Open(root)
	out := map[string]error{}
	mk := func() PT { return PT(new(T)) }
	withUUID := func() PT { o := mk(); o.Initialize(uuid); return o }
	var err error
	_, err = db.Schema(mk())
	out["Schema"] = err
	_, err = db.Get(withUUID())
	out["Get"] = err
	_, err = db.GetByUUID(mk(), uuid)
	out["GetByUUID"] = err
	_, err = db.All(mk())
	out["All"] = err
	var sl []PT
	out["AssignAll"] = db.AssignAll(mk(), &sl)
	n, err := db.Count(mk())
	out["Count"] = err
	_, err = db.Exist(withUUID())
	out["Exist"] = err
	sr := db.Search(mk(), "Lid", ">=", 0)
	out["Search"] = sr.Err()
	_, err = sr.Collect()
	out["Search.Collect"] = err
	out["Search.Delete"] = db.Search(mk(), "Lid", "=", -12345).Delete()
	_, err = db.Iterator(mk())
	out["Iterator"] = err
	var idx []int64
	func() {
		defer func() {
			if r := recover(); r != nil {
				out["AssignIndex"] = fmt.Errorf("panic: %v", r)
			}
		}()
		out["AssignIndex"] = db.AssignIndex(mk(), "Lid", &idx)
	}()
	out["InsertOrUpdate"] = db.InsertOrUpdate(mk())
	_, err = db.InsertOrUpdateMany(mk(), mk())
	out["InsertOrUpdateMany"] = err
	ch := make(chan sod.Object, 2)
	ch <- mk()
	close(ch)
	_, err = db.InsertOrUpdateBulk(ch, 1)
	out["InsertOrUpdateBulk"] = err
	out["Delete"] = db.Delete(withUUID())
	out["DeleteAll"] = db.DeleteAll(mk())
	out["Commit"] = db.Commit(mk())
	out["Flush"] = db.Flush(withUUID())
	out["FlushAndCommit"] = db.FlushAndCommit(withUUID())
	out["FlushAll"] = db.FlushAll(mk())
	out["FlushAllAndCommit"] = db.FlushAllAndCommit(mk())
	out["Repair"] = db.Repair(mk())
	out["Create"] = db.Create(mk(), schema)
	db.Close()
	return out, n
}

// RunGuard is the C17 scenario.
func RunGuard(p Params) *Result {
	prof := *Profiles["C17"]
	r := simrt.NewRand(simrt.Mix(p.Seed, 11))
	cfg := GenConfig(r.Fork(1), &prof)
	pools := GenPools(r.Fork(2), 3)
	ops := GenOps(r.Fork(3), cfg, pools, &prof)
	w := simrt.NewWorld(simrt.Mix(p.Seed, 12))
	skip := map[int]bool{}
	for _, i := range p.Skip {
		skip[i] = true
	}
	var kept []Op
	for i, o := range ops {
		if !skip[i] {
			kept = append(kept, o)
		}
	}
	s := NewSeq(w, cfg, &prof, pools, kept)
	gr := r.Fork(6)
	variant := ""
	s.Hooks.Final = func(s *Seq) { variant = s.guardScenario(gr, p.Extra) }
	cfg0 := *cfg
	s.Run()
	res := &Result{Params: p, V: s.V, Digest: w.Digest(), Class: cfg0.Class() + " " + variant, Steps: w.Steps,
		SimMs: int64(w.Now() / 1e6), NOps: len(kept), Stats: s.Stats, Config: cfg0.String()}
	if s.V != nil {
		for i, o := range ops {
			if !skip[i] {
				res.Ops = append(res.Ops, fmt.Sprintf("#%d %s", i, o.String()))
			}
		}
		res.Ops = append(res.Ops, "then: shape/settings guard checks with variant "+variant)
	}
	res.Sample = fmt.Sprintf("%d ops (settings switches on a live handle), then struct variant %q and re-create with changed constraints / extension", len(kept), variant)
	return res
}

var guardVariants = []string{"added", "removed", "retyped1", "retyped2", "retyped3", "nested", "nestedadd", "ptrstruct", "same"}

func (s *Seq) guardScenario(r *simrt.Rand, extra map[string]int) string {
	s.curOp = &Op{K: "guard"}
	// (1) re-create with changed constraints / extension on the live handle
	tag := "guard"
	// the flusher is kept out of the way while the directory is compared (it finishes
	// what it is doing first); on asynchronous collections a write is pending meanwhile,
	// which a refused Create must neither lose nor flush
	s.W.Settle()
	s.W.Exclusive(true)
	if s.Cfg.Async {
		tmp := s.M.CopyState()
		for try := 0; try < 10; try++ {
			x := GenRec(r, s.Pools, false)
			lid := 7000 + try
			x.Lid = lid
			tmp.Canon(x)
			if !model.Valid(x) || len(tmp.Conflicts(x, lid)) > 0 {
				continue
			}
			o := model.Clone(x)
			o.Initialize("")
			o.Lid = lid
			if err := s.db.InsertOrUpdate(o); err != nil {
				s.fail("read", "legit-write-rejected", "guard: insert of a valid object failed: %v", err)
			}
			x.Initialize(o.UUID())
			s.modelPut(lid, x)
			s.stat("probe:refused-create-with-pending-write")
			break
		}
	}
	before := s.W.FS.Hash(s.Root)
	s.W.FS.ROnly = true
	s.W.FS.Mutations = 0
	c2 := *s.Cfg
	c2.Ext = s.Cfg.Ext + "x"
	if r.Bool() {
		c2.Async, c2.OffStruct = false, r.Bool() // the refused schema may also ask for other settings
	}
	err := s.db.Create(rec0(), c2.Schema())
	if !errors.Is(err, sod.ErrExtensionMismatch) {
		s.fail(tag, "extension-change-not-refused", "Create with extension %q on a collection created with %q returns %v", c2.Ext, s.Cfg.Ext, err)
	}
	c3 := *s.Cfg
	c3.Cons = map[string]model.Cons{}
	for k, v := range s.Cfg.Cons {
		c3.Cons[k] = v
	}
	path := shapes.RecPaths[r.Intn(len(shapes.RecPaths)-1)]
	k := c3.Cons[path]
	switch r.Intn(3) {
	case 0:
		k.Index = !k.Index
		if k.Unique {
			k.Unique = false
		}
	case 1:
		k.Unique = !k.Unique
		k.Index = true
	default:
		if stringPaths[path] {
			k.Upper, k.Lower = !k.Upper && !k.Lower, false
		} else {
			k.Index = !k.Index
			k.Unique = false
		}
	}
	c3.Cons[path] = k
	if r.Bool() {
		c3.Async, c3.OffStruct = false, r.Bool()
		c3.Cache = !c3.Cache
	}
	err = s.db.Create(rec0(), c3.Schema())
	if !errors.Is(err, sod.ErrFieldDescModif) {
		s.fail(tag, "constraint-change-not-refused", "Create with other constraints on %s (%+v instead of %+v) returns %v", path, k, s.Cfg.Cons[path], err)
	}
	if s.W.FS.Mutations != 0 || s.W.FS.Hash(s.Root) != before {
		s.fail(tag, "refused-create-modified-files", "a refused Create modified the directory (%d file mutations)", s.W.FS.Mutations)
	}
	s.W.FS.ROnly = false
	s.W.Exclusive(false)
	s.stat("probe:refused-create")
	if s.Cfg.Async {
		// the pending write is still there: it reaches the disk with the next flush
		if err := s.db.FlushAllAndCommit(rec0()); err != nil {
			s.fail(tag, "flush-after-refused-create-failed", "FlushAllAndCommit after refused Create calls: %v", err)
		}
	}
	// the handle keeps working with the stored schema
	if v := s.subCheck(s.db, s.M, r.Uint64(), 3, "after-refused-create", true); v != nil {
		s.fail(tag, "state-changed-by-refused-create:"+v.Sig, "after refused Create calls: %s", v.Msg)
	}
	// a write after the refused calls: a refused Create must not have touched the live
	// settings (a cache that is no longer maintained would serve the old version later)
	if lids := s.M.Lids(); len(lids) > 0 {
		l := lids[r.Intn(len(lids))]
		x := model.Clone(s.M.Objs[l])
		x.Initialize(s.M.UUID[l])
		x.F32, x.U32 = 7.5, 4242
		if len(s.M.Conflicts(x, l)) == 0 {
			o := model.Clone(x)
			o.Initialize(s.M.UUID[l])
			if err := s.db.InsertOrUpdate(o); err != nil {
				s.fail("read", "legit-write-rejected", "guard: update of lid=%d after refused Create calls failed: %v", l, err)
			}
			s.modelPut(l, x)
			s.stat("probe:update-after-refused-create")
		}
	}
	// compatible Create is idempotent
	if err := s.db.Create(rec0(), s.Cfg.Schema()); err != nil {
		s.fail(tag, "compatible-create-failed", "Create with the same schema fails: %v", err)
	}
	if v := s.subCheck(s.db, s.M, r.Uint64(), 3, "after-compatible-create", true); v != nil {
		s.fail(tag, "state-changed-by-compatible-create:"+v.Sig, "after an idempotent Create: %s", v.Msg)
	}
	if err := s.db.Close(); err != nil {
		s.fail(tag, "close-failed", "Close: %v", err)
	}
	// (2) the struct changed shape
	variant := guardVariants[r.Intn(len(guardVariants))]
	if v, ok := extra["variant"]; ok {
		variant = guardVariants[v%len(guardVariants)]
	}
	uuid := absentUUID(1)
	lids := s.M.Lids()
	if len(lids) > 0 {
		uuid = s.M.UUID[lids[r.Intn(len(lids))]]
	}
	// sometimes the directory also carries the marker of an unclean shutdown: a changed
	// struct must still be refused as such (the corruption report must not come first
	// and let later calls through)
	marker := r.Chance(1, 3)
	if marker {
		s.W.FS.RawWrite(CollDir(s.Root, s.Cfg.Lower)+"/.dirty", nil)
		s.stat("probe:guard-with-leftover-marker")
	}
	before = s.W.FS.Hash(s.Root)
	s.W.FS.ROnly = true
	s.W.FS.Mutations = 0
	var errs map[string]error
	count := 0
	schema := s.Cfg.Schema()
	schema.Fields = nil // let Create derive the descriptors from the variant type
	schema.ObjectIndex = nil
	switch variant {
	case "added":
		errs, count = guardOps[sadded.Rec](s.Root, uuid, schema)
	case "removed":
		errs, count = guardOps[sremoved.Rec](s.Root, uuid, schema)
	case "retyped1":
		errs, count = guardOps[sret1.Rec](s.Root, uuid, schema)
	case "retyped2":
		errs, count = guardOps[sret2.Rec](s.Root, uuid, schema)
	case "retyped3":
		errs, count = guardOps[sret3.Rec](s.Root, uuid, schema)
	case "nested":
		errs, count = guardOps[snested.Rec](s.Root, uuid, schema)
	case "nestedadd":
		errs, count = guardOps[snestedadd.Rec](s.Root, uuid, schema)
	case "ptrstruct":
		errs, count = guardOps[sptr.Rec](s.Root, uuid, schema)
	default:
		errs, count = guardOps[ssame.Rec](s.Root, uuid, schema)
	}
	muts := s.W.FS.Mutations
	after := s.W.FS.Hash(s.Root)
	s.W.FS.ROnly = false
	compatible := variant == "same" || variant == "ptrstruct"
	if compatible && marker {
		return variant // a compatible struct on an uncleanly shut down directory: corruption is reported, C05/C11 judge that
	}
	if compatible {
		// a compatible type must not be refused (reads only are judged: the
		// write calls above legitimately modified the directory)
		for _, op := range []string{"Schema", "All", "Count", "Search", "Search.Collect", "AssignAll", "Iterator"} {
			if errs[op] != nil {
				s.fail(tag, "compatible-shape-refused:"+variant+":"+op, "struct variant %q is compatible with the stored one, yet %s fails: %v", variant, op, errs[op])
			}
		}
		if count != len(s.M.Objs) {
			s.fail(tag, "compatible-shape-wrong-count:"+variant, "struct variant %q: Count=%d, expected %d", variant, count, len(s.M.Objs))
		}
		s.stat("probe:compatible-variant-accepted")
		return variant
	}
	var names []string
	for op := range errs {
		names = append(names, op)
	}
	sort.Strings(names)
	for _, op := range names {
		// FlushAll with nothing pending has nothing to refuse: it touches no file
		// and consults no schema (interpretation recorded in DESIGN.md appendix A)
		if op == "FlushAll" && errs[op] == nil {
			continue
		}
		if !errors.Is(errs[op], sod.ErrStructureChanged) {
			s.fail(tag, "changed-shape-not-refused:"+op, "the stored struct and variant %q differ in shape, yet %s returns %v instead of ErrStructureChanged", variant, op, errs[op])
		}
	}
	if muts != 0 || after != before {
		s.fail(tag, "refused-ops-modified-files", "operations refused for a changed struct (%q) modified the directory: %d file mutations", variant, muts)
	}
	s.stat("probe:changed-shape-refused")
	return variant
}
