package simrt

import (
	"fmt"
	"reflect"
	"sort"
)

// Keys returns the keys of m in the world's seeded order. Rewritten
// `for k, v := range m` statements iterate over Keys(m) and look the value up,
// skipping keys deleted meanwhile: exactly the freedom the Go spec gives to a
// map range, made replayable.
func Keys[K comparable, V any](m map[K]V) []K {
	keys := make([]K, 0, len(m))
	for k := range m {
		keys = append(keys, k)
	}
	if len(keys) < 2 {
		return keys
	}
	switch ks := any(keys).(type) {
	case []string:
		sort.Strings(ks)
	case []uint64:
		sort.Slice(ks, func(i, j int) bool { return ks[i] < ks[j] })
	case []int:
		sort.Ints(ks)
	default:
		strs := make([]string, len(keys))
		for i, k := range keys {
			strs[i] = fmt.Sprintf("%#v", k)
		}
		idx := make([]int, len(keys))
		for i := range idx {
			idx[i] = i
		}
		sort.Slice(idx, func(a, b int) bool { return strs[idx[a]] < strs[idx[b]] })
		out := make([]K, len(keys))
		for i, j := range idx {
			out[i] = keys[j]
		}
		keys = out
	}
	w := Cur()
	if w == nil || w.Dead() {
		return keys
	}
	p := w.permute(len(keys))
	out := make([]K, len(keys))
	for i, j := range p {
		out[i] = keys[j]
	}
	return out
}

// Entry is one step of a rewritten map range.
type Entry[K comparable, V any] struct {
	m map[K]V
	K K
}

// Live reports whether the key is still present (entries removed during the
// iteration are not produced, as the Go spec demands).
func (e Entry[K, V]) Live() bool { _, ok := e.m[e.K]; return ok }

// V looks the current value up.
func (e Entry[K, V]) V() V { return e.m[e.K] }

// Range is what rewritten `for k, v := range m` statements iterate over.
func Range[K comparable, V any](m map[K]V) []Entry[K, V] {
	ks := Keys(m)
	out := make([]Entry[K, V], len(ks))
	for i, k := range ks {
		out[i] = Entry[K, V]{m: m, K: k}
	}
	return out
}

// MapKeys replaces reflect.Value.MapKeys in rewritten code: the keys in the
// world's seeded order instead of the runtime's random one.
func MapKeys(v reflect.Value) []reflect.Value {
	keys := v.MapKeys()
	if len(keys) < 2 {
		return keys
	}
	strs := make([]string, len(keys))
	idx := make([]int, len(keys))
	for i, k := range keys {
		strs[i] = fmt.Sprintf("%#v", k.Interface())
		idx[i] = i
	}
	sort.Slice(idx, func(a, b int) bool { return strs[idx[a]] < strs[idx[b]] })
	sorted := make([]reflect.Value, len(keys))
	for i, j := range idx {
		sorted[i] = keys[j]
	}
	w := Cur()
	if w == nil || w.Dead() {
		return sorted
	}
	p := w.permute(len(sorted))
	out := make([]reflect.Value, len(sorted))
	for i, j := range p {
		out[i] = sorted[j]
	}
	return out
}

// MapIter replaces *reflect.MapIter in rewritten code.
type MapIter struct {
	m    reflect.Value
	keys []reflect.Value
	i    int
}

// MapRange replaces reflect.Value.MapRange.
func MapRange(v reflect.Value) *MapIter { return &MapIter{m: v, keys: MapKeys(v), i: -1} }

// Next advances to the next entry still present in the map.
func (it *MapIter) Next() bool {
	for it.i+1 < len(it.keys) {
		it.i++
		if it.m.MapIndex(it.keys[it.i]).IsValid() {
			return true
		}
	}
	it.i = len(it.keys)
	return false
}

// Key returns the key of the current entry.
func (it *MapIter) Key() reflect.Value { return it.keys[it.i] }

// Value returns the value of the current entry.
func (it *MapIter) Value() reflect.Value { return it.m.MapIndex(it.keys[it.i]) }
