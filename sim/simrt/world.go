// Package simrt is the runtime behind the shim packages: a seeded cooperative
// scheduler that runs real goroutines one at a time, a discrete-event clock,
// simulated locks with exact deadlock detection and an in-memory file system
// with an operation log and fault injection.
//
// All bookkeeping functions are marked //go:norace: in a -race build the
// hand-offs between tasks are hidden from ThreadSanitizer (RaceDisable), so
// that only the synchronisation of the program under test creates
// happens-before edges; the simulator's own state, protected by the
// one-task-at-a-time discipline, must therefore not be instrumented.
package simrt

import (
	"fmt"
	"runtime"
	"runtime/debug"
	"strings"
	"sync/atomic"
	"time"
	"unsafe"
)

var cur *World

// Cur returns the active world (one per process at a time).
//
//go:norace
func Cur() *World { return cur }

type taskState int

const (
	tRunnable taskState = iota
	tBlocked
	tDone
)

type Task struct {
	ID     int
	Name   string
	Daemon bool

	state   taskState
	wake    chan struct{}
	exited  chan struct{}
	fn      func()
	on      string // what the task is blocked on (for reports)
	prio    int
	joiners []*Task
	started bool
	killed  bool
	gid     int64 // goroutine id (identifies a task that comes back from an invisible wait)
	extern  bool  // parked by the stall watchdog inside an operation the simulator does not see
}

type PanicInfo struct {
	Task  string
	Value string
	Stack string
}

type DeadlockInfo struct {
	Blocked []string // "task: what it waits for"
	Kind    string   // "deadlock" or "starved"
}

// Sched selects the schedule generator of a run.
type Sched struct {
	Kind   string // "uniform" (default), "pct", "script"
	Sticky int    // uniform: percent chance of continuing the current task
	Depth  int    // pct: number of priority change points
	Span   int    // pct: expected number of yield points
	Script []int  // script: task id to run at each decision point with >1 runnable
}

type World struct {
	Seed uint64
	rng  *Rand // scheduling decisions
	mrng *Rand // map iteration orders
	drng *Rand // clock drift
	// Drift > 0: at a scheduling point, with probability 1/Drift, the earliest timer fires
	// although tasks are runnable - running code takes time, so a sleeping task (the
	// flusher polling every 100 ms) can wake in the middle of another task's call
	Drift int
	urng  *Rand // uuid bytes

	tasks  []*Task
	cur    *Task
	killer *Task
	dead   bool
	done   chan struct{}

	now      time.Duration
	timerSeq uint64
	timers   []timer

	FS *FS

	Sched     Sched
	pctPoints map[int]bool
	Decisions []int // chosen task id at every decision point with >1 runnable

	Steps      int
	MaxSteps   int
	MaxSimTime time.Duration
	Seq        uint64 // global event sequence

	Panics    []PanicInfo
	Deadlock  *DeadlockInfo
	OverSteps bool

	digest    uint64
	LogOn     bool
	Log       []string
	Stats     map[string]int
	statK     []string
	statV     []int
	token     byte  // address for the end-of-world happens-before edge (tasks -> Run's caller)
	exclusive bool  // only the current task runs (harness-side checks on a swapped file system)
	progress  int64 // bumped at every scheduling point (read by the stall watchdog)
	anyExtern bool
	Stalls    int // times the watchdog had to take the processor away from a task stuck in an invisible wait
	finished  int32
	Preempt   int // number of times a runnable current task was switched out
}

type timer struct {
	at  time.Duration
	seq uint64
	t   *Task
}

// NewWorld creates a world. It becomes current on Run.
func NewWorld(seed uint64) *World {
	w := &World{
		Seed:       seed,
		rng:        NewRand(Mix(seed, 1)),
		mrng:       NewRand(Mix(seed, 2)),
		drng:       NewRand(Mix(seed, 4)),
		urng:       NewRand(Mix(seed, 3)),
		done:       make(chan struct{}),
		MaxSteps:   5000000,
		MaxSimTime: 1000 * time.Hour,
		digest:     1469598103934665603,
		Stats:      map[string]int{},
	}
	w.FS = NewFS(w)
	return w
}

// UUIDRand is the reader installed with uuid.SetRand.
func (w *World) UUIDRand() *Rand { return w.urng }

//go:norace
func (w *World) ev(kind string, a, b int) {
	w.Seq++
	h := w.digest
	for i := 0; i < len(kind); i++ {
		h = (h ^ uint64(kind[i])) * 1099511628211
	}
	h = (h ^ uint64(a)) * 1099511628211
	h = (h ^ uint64(b)) * 1099511628211
	tid := -1
	if w.cur != nil {
		tid = w.cur.ID
	}
	h = (h ^ uint64(tid+7)) * 1099511628211
	w.digest = h
	if w.LogOn {
		w.Log = append(w.Log, fmt.Sprintf("%d t%d %s %d %d", w.Seq, tid, kind, a, b))
	}
}

// Note mixes harness-level facts (results, op markers) into the event digest.
//
//go:norace
func (w *World) Note(s string) {
	w.ev(s, 0, 0)
}

//go:norace
func (w *World) Digest() uint64 { return w.digest }

// Stat counts a simulator-level event. Counters live in a slice while tasks
// run (the runtime instruments map accesses for the race detector even in
// norace code) and are folded into Stats when the run is over.
//
//go:norace
func (w *World) Stat(k string) {
	for i := range w.statK {
		if w.statK[i] == k {
			w.statV[i]++
			return
		}
	}
	w.statK = append(w.statK, k)
	w.statV = append(w.statV, 1)
}

//go:norace
func (w *World) NextSeq() uint64 { w.Seq++; return w.Seq }

//go:norace
func (w *World) Now() time.Duration { return w.now }

//go:norace
func (w *World) Dead() bool { return w.dead }

//go:norace
func (w *World) CurTask() *Task { return w.cur }

//go:norace
func (w *World) newTask(name string, daemon bool, fn func()) *Task {
	t := &Task{ID: len(w.tasks), Name: name, Daemon: daemon, fn: fn,
		wake: make(chan struct{}, 1), exited: make(chan struct{})}
	t.prio = 1000 + w.rng.Intn(1000000)
	w.tasks = append(w.tasks, t)
	return t
}

// Run executes fn as the main client task of the world and returns when every
// client task finished, or the world was aborted (panic, deadlock, budget).
//
//go:norace
func (w *World) Run(fn func()) {
	if cur != nil && !cur.dead {
		panic("simrt: a world is already running in this process")
	}
	cur = w
	if w.Sched.Kind == "pct" {
		w.pctPoints = map[int]bool{}
		span := w.Sched.Span
		if span <= 0 {
			span = 200
		}
		for i := 0; i < w.Sched.Depth; i++ {
			w.pctPoints[1+w.rng.Intn(span)] = true
		}
	}
	main := w.newTask("main", false, fn)
	w.cur = main
	w.launch(main)
	stopDog := make(chan struct{})
	go w.watchdog(stopDog)
	raceDisable()
	main.wake <- struct{}{}
	<-w.done
	close(stopDog)
	raceEnable()
	// everything the tasks did happens before what the caller does next
	raceAcquire(unsafe.Pointer(&w.token))
	for i, k := range w.statK {
		w.Stats[k] += w.statV[i]
	}
}

//go:norace
func (w *World) launch(t *Task) {
	t.started = true
	go w.taskMain(t)
}

func (w *World) taskMain(t *Task) {
	raceDisable()
	<-t.wake
	raceEnable()
	t.gid = goid()
	defer w.taskEnd(t)
	defer raceReleaseMerge(unsafe.Pointer(&w.token))
	if w.isDead() || w.isKilled(t) {
		return
	}
	t.fn()
}

//go:norace
func (w *World) finish() {
	if atomic.CompareAndSwapInt32(&w.finished, 0, 1) {
		close(w.done)
	}
}

//go:norace
func (w *World) isDead() bool { return w.dead }

//go:norace
func (w *World) isKilled(t *Task) bool { return t.killed }

// Exclusive freezes every task but the current one: yield points do not switch,
// sleeps return at once, tasks spawned meanwhile stay parked. The harness uses
// it while it examines a materialised crash state with a fresh handle, so that
// neither the flusher of the main handle nor flushers started by the fresh
// handle run on the swapped file system.
//
//go:norace
func (w *World) Exclusive(on bool) { w.exclusive = on }

// TaskMark / KillSince: tasks created after the mark are unwound (they are
// parked: they never ran, or wait at a yield point).
//
//go:norace
func (w *World) TaskMark() int { return len(w.tasks) }

//go:norace
func (w *World) KillSince(mark int) {
	for _, t := range w.tasks[mark:] {
		if t.state == tDone {
			continue
		}
		t.killed = true
		t.state = tDone
		raceDisable()
		t.wake <- struct{}{}
		<-t.exited
		raceEnable()
	}
}

//go:norace
func (w *World) taskEnd(t *Task) {
	if r := recover(); r != nil {
		if !w.dead {
			w.Panics = append(w.Panics, PanicInfo{Task: t.Name, Value: fmt.Sprint(r), Stack: string(debug.Stack())})
			w.ev("panic", t.ID, 0)
		}
	}
	t.state = tDone
	if t.killed {
		raceDisable()
		close(t.exited)
		raceEnable()
		return
	}
	if w.dead {
		if w.killer == t {
			w.finish()
		} else {
			raceDisable()
			close(t.exited)
			raceEnable()
		}
		return
	}
	for _, j := range t.joiners {
		w.ready(j)
	}
	t.joiners = nil
	if len(w.Panics) > 0 || w.clientsDone() {
		// a panic kills the process; and when the last client returns the
		// simulated process ends: daemons are torn down.
		w.killOthers(t)
		w.finish()
		return
	}
	// hand over to somebody else; this goroutine ends
	next := w.pickNext(false)
	if next == nil {
		// stuck: killOthers already done by pickNext
		w.finish()
		return
	}
	w.cur = next
	raceDisable()
	next.wake <- struct{}{}
	raceEnable()
}

//go:norace
func (w *World) clientsDone() bool {
	for _, t := range w.tasks {
		if !t.Daemon && t.state != tDone {
			return false
		}
	}
	return true
}

// killOthers marks the world dead and unwinds every other task, one at a time.
//
//go:norace
func (w *World) killOthers(self *Task) {
	w.dead = true
	w.killer = self
	for _, t := range w.tasks {
		if t == self || t.state == tDone || t.extern {
			continue // a task stuck in an invisible wait cannot be unwound: its goroutine is leaked
		}
		raceDisable()
		if !t.started {
			t.started = true
			go w.taskMain(t)
		}
		t.wake <- struct{}{}
		<-t.exited
		raceEnable()
	}
}

// abort ends the world from inside the current task (deadlock, budget).
//
//go:norace
func (w *World) abort() {
	self := w.cur
	w.killOthers(self)
	runtime.Goexit()
}

//go:norace
func (w *World) runnable() []*Task {
	var r []*Task
	for _, t := range w.tasks {
		if t.state == tRunnable {
			r = append(r, t)
		}
	}
	return r
}

//go:norace
func (w *World) ready(t *Task) {
	if t.state == tBlocked {
		t.state = tRunnable
		t.on = ""
	}
}

// advanceClock fires the earliest timers; false if there is none.
//
//go:norace
func (w *World) advanceClock() bool {
	if len(w.timers) == 0 {
		return false
	}
	// insertion sort by (at, seq): plain loops, see fs.go on instrumented runtime helpers
	for i := 1; i < len(w.timers); i++ {
		for j := i; j > 0; j-- {
			a, b := w.timers[j-1], w.timers[j]
			if a.at < b.at || (a.at == b.at && a.seq < b.seq) {
				break
			}
			w.timers[j-1], w.timers[j] = b, a
		}
	}
	at := w.timers[0].at
	if at > w.now {
		w.now = at
	}
	n := 0
	for n < len(w.timers) && w.timers[n].at <= at {
		w.ready(w.timers[n].t)
		n++
	}
	w.timers = w.timers[n:]
	w.ev("clock", int(w.now/time.Millisecond), n)
	return true
}

// pickNext chooses the next task to run. curOK says whether the current task
// may continue. Returns nil (after killing the world) if the world is stuck.
//
//go:norace
func (w *World) pickNext(curOK bool) *Task {
	if w.exclusive && curOK && w.cur.state == tRunnable {
		return w.cur
	}
	if w.Drift > 0 && !w.exclusive && len(w.timers) > 0 && w.drng.Intn(w.Drift) == 0 {
		// only a timer that is due soon: the code that runs takes a little time, it must not
		// make a quarter of an hour pass at once for the tasks that are in the middle of a call
		min := w.timers[0].at
		for _, tm := range w.timers {
			if tm.at < min {
				min = tm.at
			}
		}
		if min-w.now <= 200*time.Millisecond {
			w.advanceClock()
			w.Stat("clock-drift")
		}
	}
	for {
		r := w.runnable()
		if len(r) == 0 {
			blockedClient := false
			for _, t := range w.tasks {
				if !t.Daemon && t.state == tBlocked && t.on != "sleep" {
					blockedClient = true
				}
			}
			// a client waiting on a timer is fine; advance the clock
			if w.advanceClock() {
				if w.now > w.MaxSimTime && blockedClient {
					w.reportStuck("starved")
					return w.stuckExit(curOK)
				}
				continue
			}
			w.reportStuck("deadlock")
			return w.stuckExit(curOK)
		}
		if len(r) == 1 {
			return r[0]
		}
		var next *Task
		switch w.Sched.Kind {
		case "script":
			idx := len(w.Decisions)
			if idx < len(w.Sched.Script) {
				for _, t := range r {
					if t.ID == w.Sched.Script[idx] {
						next = t
					}
				}
			}
			if next == nil {
				if curOK && w.cur.state == tRunnable {
					next = w.cur
				} else {
					next = r[0]
				}
			}
		case "pct":
			if w.pctPoints[w.Steps] && curOK {
				// lower the current task below everybody
				min := w.cur.prio
				for _, t := range w.tasks {
					if t.prio < min {
						min = t.prio
					}
				}
				w.cur.prio = min - 1
			}
			for _, t := range r {
				if next == nil || t.prio > next.prio {
					next = t
				}
			}
		default:
			if curOK && w.cur.state == tRunnable && w.rng.Intn(100) < w.Sched.Sticky {
				next = w.cur
			} else {
				next = r[w.rng.Intn(len(r))]
			}
		}
		w.Decisions = append(w.Decisions, next.ID)
		return next
	}
}

//go:norace
func (w *World) stuckExit(curOK bool) *Task {
	// called with the world stuck; kill everything. If called from a live
	// task (curOK or blocked current) the caller must Goexit.
	self := w.cur
	w.killOthers(self)
	return nil
}

//go:norace
func (w *World) reportStuck(kind string) {
	if w.Stalls > 0 {
		kind = "invisible-wait" // a task waits on something the simulator does not see and nobody can release it
	}
	d := &DeadlockInfo{Kind: kind}
	for _, t := range w.tasks {
		if t.state == tBlocked {
			d.Blocked = append(d.Blocked, fmt.Sprintf("%s(t%d): %s", t.Name, t.ID, t.on))
		}
	}
	w.Deadlock = d
	w.ev("stuck", len(d.Blocked), 0)
}

// TaskStates describes every task (debugging aid).
//
//go:norace
func (w *World) TaskStates() string {
	out := ""
	for _, t := range w.tasks {
		st := "runnable"
		switch t.state {
		case tBlocked:
			st = "blocked on " + t.on
		case tDone:
			st = "done"
		}
		out += fmt.Sprintf("%s(t%d): %s; ", t.Name, t.ID, st)
	}
	out += fmt.Sprintf("now=%v timers:", w.now)
	for _, tm := range w.timers {
		out += fmt.Sprintf(" t%d@%v", tm.t.ID, tm.at)
	}
	return out
}

// switchTo transfers control from the current task to next and parks.
//
//go:norace
func (w *World) switchTo(next *Task) {
	self := w.cur
	w.cur = next
	if !next.started {
		w.launch(next)
	}
	raceDisable()
	next.wake <- struct{}{}
	<-self.wake
	raceEnable()
	if w.dead || self.killed {
		runtime.Goexit()
	}
}

// Yield is a scheduling point at which the current task stays runnable.
//
//go:norace
func (w *World) Yield(kind string) {
	if w.dead {
		return
	}
	if w.anyExtern {
		w.reenter()
	}
	w.step(kind)
	self := w.cur
	next := w.pickNext(true)
	if next == nil {
		runtime.Goexit()
	}
	if next != self {
		w.Preempt++
		w.switchTo(next)
	}
}

//go:norace
func (w *World) step(kind string) {
	w.Steps++
	atomic.AddInt64(&w.progress, 1)
	w.ev(kind, w.Steps, 0)
	if w.Steps > w.MaxSteps {
		w.OverSteps = true
		w.abort()
	}
}

// block parks the current task until another task (or a timer) readies it.
//
//go:norace
func (w *World) block(on string) {
	if w.dead {
		return
	}
	self := w.cur
	self.state = tBlocked
	self.on = on
	w.step("block")
	next := w.pickNext(false)
	if next == nil {
		runtime.Goexit()
	}
	if next != self {
		w.switchTo(next)
	}
	// next == self happens when a timer readied us
}

// selfDeadlock ends the world with a deadlock report: the current task waits on
// a lock that only itself could release. Exact whatever the other tasks do, so it
// does not depend on who else is runnable (under Exclusive the others are frozen and
// a polling flusher whose sleeps return at once would otherwise spin for ever).
//
//go:norace
func (w *World) selfDeadlock(on string) {
	if w.dead {
		return
	}
	self := w.cur
	self.state = tBlocked
	self.on = on
	w.step("block")
	w.reportStuck("deadlock")
	w.stuckExit(false)
	runtime.Goexit()
}

// Settle lets the other tasks run, without advancing the clock, until each of
// them waits for a timer or a lock: background work that was in flight at this
// instant (a flusher in the middle of a commit) has completed when it returns.
// The choice of who runs is fixed (lowest task id first), so it does not depend
// on the schedule mode.
//
//go:norace
func (w *World) Settle() {
	if w.dead || w.exclusive {
		return
	}
	self := w.cur
	for n := 0; n < 100000; n++ {
		var next *Task
		for _, t := range w.tasks {
			if t != self && t.state == tRunnable {
				next = t
				break
			}
		}
		if next == nil {
			return
		}
		if w.anyExtern {
			w.reenter()
		}
		w.step("settle")
		w.switchTo(next)
	}
}

// Sleep advances simulated time for the current task.
//
//go:norace
func (w *World) Sleep(d time.Duration) {
	if w.dead {
		return
	}
	if d <= 0 || w.exclusive {
		w.Yield("sleep0")
		return
	}
	w.timerSeq++
	w.timers = append(w.timers, timer{at: w.now + d, seq: w.timerSeq, t: w.cur})
	w.block("sleep")
}

// Go starts fn as a daemon task (a goroutine spawned by the code under test).
//
//go:norace
func (w *World) Go(fn func()) {
	if w.dead {
		return
	}
	t := w.newTask(fmt.Sprintf("go%d", len(w.tasks)), true, fn)
	w.launch(t)
	w.ev("go", t.ID, 0)
	w.Yield("spawn")
}

// Spawn starts fn as a client task.
//
//go:norace
func (w *World) Spawn(name string, fn func()) *Task {
	t := w.newTask(name, false, fn)
	w.launch(t)
	w.ev("spawn", t.ID, 0)
	return t
}

// Join blocks the current task until t is done.
//
//go:norace
func (w *World) Join(t *Task) {
	if w.dead {
		return
	}
	for t.state != tDone {
		t.joiners = append(t.joiners, w.cur)
		w.block("join " + t.Name)
	}
}

// Go is what rewritten `go` statements call.
func Go(fn func()) {
	w := Cur()
	if w == nil {
		panic("simrt.Go outside a simulated world")
	}
	w.Go(fn)
}

//go:norace
func (w *World) permute(n int) []int { return w.mrng.Perm(n) }

func (d *DeadlockInfo) String() string {
	return d.Kind + ": " + strings.Join(d.Blocked, "; ")
}

// ---- stall watchdog ----------------------------------------------------------
//
// The scheduler only sees the synchronisation that goes through the shims. If
// the code under test waits on something else (a raw channel, a select, a spin
// on sync/atomic), the goroutine that holds the processor never reaches a yield
// point and the whole world stops. The watchdog notices that no scheduling point
// was passed for StallAfter of wall time, declares the current task blocked "in
// an operation the simulator does not see" and lets the other tasks run: either
// they release it (it re-enters the scheduler at its next shim call; the run is
// then counted as inconclusive, because wall time took part in the schedule), or
// everybody ends up blocked and the ordinary deadlock report names it.

// StallAfter is the wall time without a scheduling point after which the
// current task is considered stuck.
var StallAfter = 4 * time.Second

func goid() int64 {
	var buf [64]byte
	n := runtime.Stack(buf[:], false)
	// "goroutine 123 [running]:"
	var id int64
	for i := len("goroutine "); i < n && buf[i] >= '0' && buf[i] <= '9'; i++ {
		id = id*10 + int64(buf[i]-'0')
	}
	return id
}

//go:norace
func (w *World) watchdog(stop chan struct{}) {
	last := atomic.LoadInt64(&w.progress)
	since := time.Now()
	tick := time.NewTicker(200 * time.Millisecond)
	defer tick.Stop()
	for {
		select {
		case <-stop:
			return
		case <-tick.C:
		}
		now := atomic.LoadInt64(&w.progress)
		if now != last {
			last, since = now, time.Now()
			continue
		}
		if time.Since(since) < StallAfter {
			continue
		}
		if !w.rescue() {
			return
		}
		since = time.Now()
	}
}

// rescue takes the processor away from the current task, which is stuck. It
// runs on the watchdog goroutine while no task passes scheduling points.
//
//go:norace
func (w *World) rescue() bool {
	if w.dead || atomic.LoadInt32(&w.finished) == 1 {
		return false
	}
	t := w.cur
	if t == nil || t.state == tDone {
		return false
	}
	t.extern = true
	t.state = tBlocked
	t.on = "an operation the simulator does not see (raw channel, select, sync/atomic wait ...), entered " + fmt.Sprint(StallAfter) + " of wall time ago"
	w.anyExtern = true
	w.Stalls++
	w.ev("stall", t.ID, 0)
	next := w.pickNext(false)
	if next == nil {
		// everybody is blocked: reported as a deadlock by pickNext, world unwound
		w.finish()
		return false
	}
	w.cur = next
	raceDisable()
	next.wake <- struct{}{}
	raceEnable()
	return true
}

// reenter: a shim was entered while some task is marked stuck. If the caller
// is that task (it was released after all), it gives the processor back and
// waits to be scheduled like everybody else.
//
//go:norace
func (w *World) reenter() {
	g := goid()
	if w.cur != nil && w.cur.gid == g {
		return
	}
	for _, t := range w.tasks {
		if t.gid == g && t.extern {
			t.extern = false
			t.on = ""
			t.state = tRunnable
			raceDisable()
			<-t.wake
			raceEnable()
			if w.dead || t.killed {
				runtime.Goexit()
			}
			return
		}
	}
}
