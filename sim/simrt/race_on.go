//go:build race

package simrt

import (
	"runtime"
	"unsafe"
)

// RaceBuild reports whether the binary is instrumented by the race detector.
const RaceBuild = true

func raceDisable()                      { runtime.RaceDisable() }
func raceEnable()                       { runtime.RaceEnable() }
func raceAcquire(p unsafe.Pointer)      { runtime.RaceAcquire(p) }
func raceRelease(p unsafe.Pointer)      { runtime.RaceRelease(p) }
func raceReleaseMerge(p unsafe.Pointer) { runtime.RaceReleaseMerge(p) }
