package simrt

import (
	"io"
	"io/fs"
	"path"
	"strings"
	"syscall"
	"time"
)

// FS is an in-memory POSIX-like file system. Every mutation is appended to an
// operation log from which any crash prefix can be materialised; a single
// fault can be armed to fire at the n-th call.
type FS struct {
	w    *World
	root *node

	Log   []LogEntry
	LogOn bool
	Tag   string // label of the harness operation in progress

	Calls     int // FS calls since ArmFault / ResetCalls
	Writes    int // write calls since ArmFault / ResetCalls
	fault     *Fault
	Fired     map[string]int
	ROnly     bool // when set, any mutation is recorded in Mutations (C17)
	Mutations int
	FirstMut  uint64 // event sequence of the first mutation since it was reset to 0
}

type node struct {
	dir      bool
	data     []byte
	children []dent // sorted by name; a slice, not a map: the runtime instruments map accesses for the race detector even in norace code
	perm     fs.FileMode
	mtime    time.Duration
}

type dent struct {
	name string
	n    *node
}

//go:norace
func (n *node) get(name string) (*node, bool) {
	for i := range n.children {
		if n.children[i].name == name {
			return n.children[i].n, true
		}
	}
	return nil, false
}

//go:norace
func (n *node) set(name string, c *node) {
	for i := range n.children {
		if n.children[i].name == name {
			n.children[i].n = c
			return
		}
	}
	i := 0
	for i < len(n.children) && n.children[i].name < name {
		i++
	}
	n.children = append(n.children, dent{})
	for j := len(n.children) - 1; j > i; j-- {
		n.children[j] = n.children[j-1]
	}
	n.children[i] = dent{name: name, n: c}
}

//go:norace
func (n *node) del(name string) {
	for i := range n.children {
		if n.children[i].name == name {
			for j := i; j+1 < len(n.children); j++ {
				n.children[j] = n.children[j+1]
			}
			n.children = n.children[:len(n.children)-1]
			return
		}
	}
}

func newDir(perm fs.FileMode) *node { return &node{dir: true, perm: perm} }

// LogEntry is one completed file-system mutation.
type LogEntry struct {
	Seq   uint64
	Task  int
	Kind  string // mkdir create truncate write close remove removeall rename chmod sync
	Path  string
	Path2 string
	Off   int64
	Data  []byte
	Perm  fs.FileMode
	Tag   string
}

// Fault is a single storage fault.
type Fault struct {
	Kind    string // eio enospc eacces short
	AtCall  int    // fire at the n-th FS call (1-based); 0 = use AtWrite
	AtWrite int    // fire at the n-th write call (1-based)
	Bytes   int    // short: bytes persisted before ENOSPC
	Fired   bool
	Where   string
}

func NewFS(w *World) *FS {
	return &FS{w: w, root: newDir(0755), Fired: map[string]int{}}
}

//go:norace
func (n *node) clone() *node {
	c := &node{dir: n.dir, perm: n.perm, mtime: n.mtime}
	if n.dir {
		c.children = make([]dent, len(n.children))
		for i, d := range n.children {
			c.children[i] = dent{name: d.name, n: d.n.clone()}
		}
	} else {
		c.data = cloneBytes(n.data)
	}
	return c
}

// Snapshot is an immutable copy of the whole tree.
type Snapshot struct{ root *node }

//go:norace
func (f *FS) Snapshot() *Snapshot { return &Snapshot{root: f.root.clone()} }

//go:norace
func (f *FS) Restore(s *Snapshot) { f.root = s.root.clone() }

//go:norace
func split(p string) []string {
	p = path.Clean("/" + p)
	if p == "/" {
		return nil
	}
	return strings.Split(p[1:], "/")
}

//go:norace
func clean(p string) string { return path.Clean("/" + p) }

// lookup returns the node, or the errno.
//
//go:norace
func (f *FS) lookup(p string) (*node, syscall.Errno) {
	n := f.root
	for _, part := range split(p) {
		if !n.dir {
			return nil, syscall.ENOTDIR
		}
		c, ok := n.get(part)
		if !ok {
			return nil, syscall.ENOENT
		}
		n = c
	}
	return n, 0
}

//go:norace
func (f *FS) parent(p string) (*node, string, syscall.Errno) {
	parts := split(p)
	if len(parts) == 0 {
		return nil, "", syscall.EINVAL
	}
	n := f.root
	for _, part := range parts[:len(parts)-1] {
		if !n.dir {
			return nil, "", syscall.ENOTDIR
		}
		c, ok := n.get(part)
		if !ok {
			return nil, "", syscall.ENOENT
		}
		n = c
	}
	if !n.dir {
		return nil, "", syscall.ENOTDIR
	}
	return n, parts[len(parts)-1], 0
}

func perr(op, p string, e syscall.Errno) error { return &fs.PathError{Op: op, Path: p, Err: e} }

//go:norace
func (f *FS) log(kind, p, p2 string, off int64, data []byte, perm fs.FileMode) {
	if f.ROnly {
		f.Mutations++
	}
	f.w.ev("fs:"+kind, len(p), int(off)+len(data))
	if f.FirstMut == 0 && kind != "close" {
		f.FirstMut = f.w.Seq
	}
	if !f.LogOn {
		return
	}
	tid := -1
	if f.w.cur != nil {
		tid = f.w.cur.ID
	}
	f.Log = append(f.Log, LogEntry{Seq: f.w.Seq, Task: tid, Kind: kind, Path: p, Path2: p2, Off: off,
		Data: cloneBytes(data), Perm: perm, Tag: f.Tag})
}

// ArmFault arms a single fault and resets the call counters.
//
//go:norace
func (f *FS) ArmFault(ft *Fault) { f.fault = ft; f.Calls = 0; f.Writes = 0 }

//go:norace
func (f *FS) Disarm() *Fault { ft := f.fault; f.fault = nil; return ft }

//go:norace
func (f *FS) ResetCalls() { f.Calls = 0; f.Writes = 0 }

// enter is the prologue of every FS call: a scheduling point and the fault
// check. It returns the errno to fail with, or 0.
//
//go:norace
func (f *FS) enter(op, p string, isWrite bool) syscall.Errno {
	if f.w.dead {
		return syscall.EIO
	}
	f.w.Yield("fs:" + op)
	f.Calls++
	if isWrite {
		f.Writes++
	}
	ft := f.fault
	if ft == nil || ft.Fired {
		return 0
	}
	hit := false
	if ft.AtCall > 0 && f.Calls == ft.AtCall {
		hit = true
	}
	if ft.AtWrite > 0 && isWrite && f.Writes == ft.AtWrite {
		hit = true
	}
	if !hit {
		return 0
	}
	if ft.Kind == "short" && !isWrite {
		// a short write can only hit a write; not fired
		return 0
	}
	ft.Fired = true
	ft.Where = op + " " + p
	f.Fired[ft.Kind]++
	switch ft.Kind {
	case "enospc":
		return syscall.ENOSPC
	case "eacces":
		return syscall.EACCES
	case "short":
		return syscall.Errno(0xffff) // handled by write
	default:
		return syscall.EIO
	}
}

type fileInfo struct {
	name string
	n    *node
	size int64
	mode fs.FileMode
	mt   time.Duration
}

func (i *fileInfo) Name() string { return i.name }
func (i *fileInfo) Size() int64  { return i.size }
func (i *fileInfo) Mode() fs.FileMode {
	return i.mode
}
func (i *fileInfo) ModTime() time.Time { return Epoch.Add(i.mt) }
func (i *fileInfo) IsDir() bool        { return i.mode.IsDir() }
func (i *fileInfo) Sys() interface{}   { return nil }

func (i *fileInfo) Type() fs.FileMode          { return i.mode.Type() }
func (i *fileInfo) Info() (fs.FileInfo, error) { return i, nil }

// Epoch is the wall-clock origin of simulated time.
var Epoch = time.Date(2022, 3, 4, 5, 6, 7, 0, time.UTC)

//go:norace
func infoOf(name string, n *node) *fileInfo {
	m := n.perm
	if n.dir {
		m |= fs.ModeDir
	}
	return &fileInfo{name: name, n: n, size: int64(len(n.data)), mode: m, mt: n.mtime}
}

//go:norace
func (f *FS) Stat(p string) (fs.FileInfo, error) {
	if e := f.enter("stat", p, false); e != 0 {
		return nil, perr("stat", p, e)
	}
	n, e := f.lookup(p)
	if e != 0 {
		return nil, perr("stat", p, e)
	}
	return infoOf(path.Base(clean(p)), n), nil
}

//go:norace
func (f *FS) Mkdir(p string, perm fs.FileMode) error {
	if e := f.enter("mkdir", p, false); e != 0 {
		return perr("mkdir", p, e)
	}
	return f.mkdir(p, perm)
}

//go:norace
func (f *FS) mkdir(p string, perm fs.FileMode) error {
	par, name, e := f.parent(p)
	if e != 0 {
		return perr("mkdir", p, e)
	}
	if _, ok := par.get(name); ok {
		return perr("mkdir", p, syscall.EEXIST)
	}
	par.set(name, &node{dir: true, perm: perm, mtime: f.w.now})
	f.log("mkdir", clean(p), "", 0, nil, perm)
	return nil
}

//go:norace
func (f *FS) MkdirAll(p string, perm fs.FileMode) error {
	if e := f.enter("mkdirall", p, false); e != 0 {
		return perr("mkdir", p, e)
	}
	parts := split(p)
	curp := ""
	n := f.root
	for _, part := range parts {
		curp += "/" + part
		c, ok := n.get(part)
		if !ok {
			if err := f.mkdir(curp, perm); err != nil {
				return err
			}
			c, _ = n.get(part)
		} else if !c.dir {
			return perr("mkdir", curp, syscall.ENOTDIR)
		}
		n = c
	}
	return nil
}

// File is an open file (or directory) handle.
type File struct {
	f      *FS
	n      *node
	name   string
	off    int64
	flag   int
	closed bool
	real   io.Writer // os.Stdout / os.Stderr passthrough
}

// RealFile wraps a real writer (stderr/stdout) into a *File.
func RealFile(w io.Writer, name string) *File { return &File{real: w, name: name} }

const (
	O_RDONLY = syscall.O_RDONLY
	O_WRONLY = syscall.O_WRONLY
	O_RDWR   = syscall.O_RDWR
	O_APPEND = syscall.O_APPEND
	O_CREATE = syscall.O_CREAT
	O_EXCL   = syscall.O_EXCL
	O_SYNC   = syscall.O_SYNC
	O_TRUNC  = syscall.O_TRUNC
)

//go:norace
func (f *FS) OpenFile(p string, flag int, perm fs.FileMode) (*File, error) {
	if e := f.enter("open", p, false); e != 0 {
		return nil, perr("open", p, e)
	}
	n, e := f.lookup(p)
	wr := flag&(O_WRONLY|O_RDWR) != 0
	switch {
	case e == syscall.ENOENT && flag&O_CREATE != 0:
		par, name, pe := f.parent(p)
		if pe != 0 {
			return nil, perr("open", p, pe)
		}
		n = &node{perm: perm, mtime: f.w.now}
		par.set(name, n)
		f.log("create", clean(p), "", 0, nil, perm)
	case e != 0:
		return nil, perr("open", p, e)
	default:
		if flag&O_CREATE != 0 && flag&O_EXCL != 0 {
			return nil, perr("open", p, syscall.EEXIST)
		}
		if n.dir && wr {
			return nil, perr("open", p, syscall.EISDIR)
		}
		if flag&O_TRUNC != 0 && wr && !n.dir && len(n.data) >= 0 {
			n.data = nil
			n.mtime = f.w.now
			f.log("truncate", clean(p), "", 0, nil, 0)
		}
	}
	return &File{f: f, n: n, name: p, flag: flag}, nil
}

func (f *FS) Open(p string) (*File, error) { return f.OpenFile(p, O_RDONLY, 0) }

func (f *FS) Create(p string) (*File, error) {
	return f.OpenFile(p, O_RDWR|O_CREATE|O_TRUNC, 0666)
}

//go:norace
func (f *FS) Remove(p string) error {
	if e := f.enter("remove", p, false); e != 0 {
		return perr("remove", p, e)
	}
	par, name, e := f.parent(p)
	if e != 0 {
		return perr("remove", p, e)
	}
	n, ok := par.get(name)
	if !ok {
		return perr("remove", p, syscall.ENOENT)
	}
	if n.dir && len(n.children) > 0 {
		return perr("remove", p, syscall.ENOTEMPTY)
	}
	par.del(name)
	par.mtime = f.w.now
	f.log("remove", clean(p), "", 0, nil, 0)
	return nil
}

//go:norace
func (f *FS) RemoveAll(p string) error {
	if e := f.enter("removeall", p, false); e != 0 {
		return perr("unlinkat", p, e)
	}
	par, name, e := f.parent(p)
	if e != 0 {
		if e == syscall.ENOENT {
			return nil
		}
		if e == syscall.EINVAL { // root
			f.root.children = nil
			f.log("removeall", "/", "", 0, nil, 0)
			return nil
		}
		return perr("unlinkat", p, e)
	}
	if _, ok := par.get(name); !ok {
		return nil
	}
	par.del(name)
	f.log("removeall", clean(p), "", 0, nil, 0)
	return nil
}

//go:norace
func (f *FS) Rename(from, to string) error {
	if e := f.enter("rename", from, false); e != 0 {
		return &LinkError{"rename", from, to, e}
	}
	fp, fname, e := f.parent(from)
	if e != 0 {
		return &LinkError{"rename", from, to, e}
	}
	n, ok := fp.get(fname)
	if !ok {
		return &LinkError{"rename", from, to, syscall.ENOENT}
	}
	tp, tname, e := f.parent(to)
	if e != 0 {
		return &LinkError{"rename", from, to, e}
	}
	if ex, ok := tp.get(tname); ok {
		if ex.dir && !n.dir {
			return &LinkError{"rename", from, to, syscall.EISDIR}
		}
		if !ex.dir && n.dir {
			return &LinkError{"rename", from, to, syscall.ENOTDIR}
		}
		if ex.dir && len(ex.children) > 0 {
			return &LinkError{"rename", from, to, syscall.ENOTEMPTY}
		}
	}
	fp.del(fname)
	tp.set(tname, n)
	f.log("rename", clean(from), clean(to), 0, nil, 0)
	return nil
}

// LinkError mirrors os.LinkError.
type LinkError struct {
	Op  string
	Old string
	New string
	Err error
}

func (e *LinkError) Error() string { return e.Op + " " + e.Old + " " + e.New + ": " + e.Err.Error() }
func (e *LinkError) Unwrap() error { return e.Err }

//go:norace
func (f *FS) Chmod(p string, perm fs.FileMode) error {
	if e := f.enter("chmod", p, false); e != 0 {
		return perr("chmod", p, e)
	}
	n, e := f.lookup(p)
	if e != 0 {
		return perr("chmod", p, e)
	}
	n.perm = perm
	f.log("chmod", clean(p), "", 0, nil, perm)
	return nil
}

//go:norace
func (f *FS) Truncate(p string, size int64) error {
	if e := f.enter("truncate", p, false); e != 0 {
		return perr("truncate", p, e)
	}
	n, e := f.lookup(p)
	if e != 0 {
		return perr("truncate", p, e)
	}
	if n.dir {
		return perr("truncate", p, syscall.EISDIR)
	}
	n.resize(size)
	f.log("truncate", clean(p), "", size, nil, 0)
	return nil
}

//go:norace
func (n *node) resize(size int64) {
	if int64(len(n.data)) > size {
		n.data = n.data[:size]
	} else {
		n.data = growBytes(n.data, int(size))
	}
}

//go:norace
func (f *FS) ReadDir(p string) ([]fs.DirEntry, error) {
	if e := f.enter("readdir", p, false); e != 0 {
		return nil, perr("open", p, e)
	}
	n, e := f.lookup(p)
	if e != 0 {
		return nil, perr("open", p, e)
	}
	if !n.dir {
		return nil, perr("readdirent", p, syscall.ENOTDIR)
	}
	return dirEntries(n), nil
}

//go:norace
func dirEntries(n *node) []fs.DirEntry {
	out := make([]fs.DirEntry, 0, len(n.children))
	for _, d := range n.children {
		out = append(out, infoOf(d.name, d.n))
	}
	return out
}

//go:norace
func (f *FS) ReadFile(p string) ([]byte, error) {
	fh, err := f.Open(p)
	if err != nil {
		return nil, err
	}
	defer fh.Close()
	return io.ReadAll(fh)
}

//go:norace
func (f *FS) WriteFile(p string, data []byte, perm fs.FileMode) error {
	fh, err := f.OpenFile(p, O_WRONLY|O_CREATE|O_TRUNC, perm)
	if err != nil {
		return err
	}
	_, err = fh.Write(data)
	if err1 := fh.Close(); err1 != nil && err == nil {
		err = err1
	}
	return err
}

func (h *File) Name() string { return h.name }

//go:norace
func (h *File) Read(b []byte) (int, error) {
	if h.real != nil {
		return 0, io.EOF
	}
	if e := h.f.enter("read", h.name, false); e != 0 {
		return 0, perr("read", h.name, e)
	}
	if h.closed {
		return 0, perr("read", h.name, syscall.EBADF)
	}
	if h.n.dir {
		return 0, perr("read", h.name, syscall.EISDIR)
	}
	if h.off >= int64(len(h.n.data)) {
		return 0, io.EOF
	}
	n := copyBytes(b, h.n.data[h.off:])
	h.off += int64(n)
	return n, nil
}

//go:norace
func (h *File) ReadAt(b []byte, off int64) (int, error) {
	if e := h.f.enter("read", h.name, false); e != 0 {
		return 0, perr("read", h.name, e)
	}
	if h.closed || h.n.dir {
		return 0, perr("read", h.name, syscall.EBADF)
	}
	if off >= int64(len(h.n.data)) {
		return 0, io.EOF
	}
	n := copyBytes(b, h.n.data[off:])
	if n < len(b) {
		return n, io.EOF
	}
	return n, nil
}

//go:norace
func (h *File) Write(b []byte) (int, error) {
	if h.real != nil {
		return h.real.Write(b)
	}
	e := h.f.enter("write", h.name, true)
	short := -1
	if e == syscall.Errno(0xffff) {
		short = h.f.fault.Bytes
		if short > len(b) {
			short = len(b)
		}
	} else if e != 0 {
		return 0, perr("write", h.name, e)
	}
	if h.closed {
		return 0, perr("write", h.name, syscall.EBADF)
	}
	if h.flag&(O_WRONLY|O_RDWR) == 0 || h.n.dir {
		return 0, perr("write", h.name, syscall.EBADF)
	}
	if h.flag&O_APPEND != 0 {
		h.off = int64(len(h.n.data))
	}
	data := b
	if short >= 0 {
		data = b[:short]
	}
	h.n.writeAt(data, h.off)
	h.n.mtime = h.f.w.now
	h.f.log("write", clean(h.name), "", h.off, data, 0)
	h.off += int64(len(data))
	if short >= 0 {
		return short, perr("write", h.name, syscall.ENOSPC)
	}
	return len(b), nil
}

//go:norace
func (n *node) writeAt(data []byte, off int64) {
	end := off + int64(len(data))
	if end > int64(len(n.data)) {
		n.data = growBytes(n.data, int(end))
	}
	copyBytes(n.data[off:], data)
}

func (h *File) WriteString(s string) (int, error) { return h.Write([]byte(s)) }

//go:norace
func (h *File) WriteAt(b []byte, off int64) (int, error) {
	if e := h.f.enter("write", h.name, true); e != 0 && e != syscall.Errno(0xffff) {
		return 0, perr("write", h.name, e)
	}
	if h.closed || h.flag&(O_WRONLY|O_RDWR) == 0 || h.n.dir {
		return 0, perr("write", h.name, syscall.EBADF)
	}
	h.n.writeAt(b, off)
	h.f.log("write", clean(h.name), "", off, b, 0)
	return len(b), nil
}

//go:norace
func (h *File) Seek(off int64, whence int) (int64, error) {
	switch whence {
	case io.SeekStart:
		h.off = off
	case io.SeekCurrent:
		h.off += off
	case io.SeekEnd:
		h.off = int64(len(h.n.data)) + off
	}
	return h.off, nil
}

//go:norace
func (h *File) Close() error {
	if h.real != nil {
		return nil
	}
	if h.closed {
		return &fs.PathError{Op: "close", Path: h.name, Err: fs.ErrClosed}
	}
	e := h.f.enter("close", h.name, false)
	h.closed = true
	if h.flag&(O_WRONLY|O_RDWR) != 0 {
		h.f.log("close", clean(h.name), "", 0, nil, 0)
	}
	if e != 0 {
		return perr("close", h.name, e)
	}
	return nil
}

//go:norace
func (h *File) Sync() error {
	if h.real != nil {
		return nil
	}
	if e := h.f.enter("sync", h.name, false); e != 0 {
		return perr("sync", h.name, e)
	}
	h.f.log("sync", clean(h.name), "", 0, nil, 0)
	return nil
}

//go:norace
func (h *File) Truncate(size int64) error {
	if e := h.f.enter("truncate", h.name, false); e != 0 {
		return perr("truncate", h.name, e)
	}
	h.n.resize(size)
	h.f.log("truncate", clean(h.name), "", size, nil, 0)
	return nil
}

//go:norace
func (h *File) Stat() (fs.FileInfo, error) {
	if h.real != nil {
		return nil, perr("stat", h.name, syscall.EINVAL)
	}
	return infoOf(path.Base(clean(h.name)), h.n), nil
}

//go:norace
func (h *File) ReadDir(n int) ([]fs.DirEntry, error) {
	if !h.n.dir {
		return nil, perr("readdirent", h.name, syscall.ENOTDIR)
	}
	return dirEntries(h.n), nil
}

func (h *File) Readdirnames(n int) ([]string, error) {
	es, err := h.ReadDir(n)
	var out []string
	for _, e := range es {
		out = append(out, e.Name())
	}
	return out, err
}

func (h *File) Chmod(m fs.FileMode) error { return nil }
func (h *File) Fd() uintptr               { return ^uintptr(0) }

// ---- harness-side access: no yields, no faults, no log -------------------

// Apply replays one log entry onto the tree (materialising a crash prefix).
//
//go:norace
func (f *FS) Apply(e LogEntry) {
	switch e.Kind {
	case "mkdir":
		if par, name, er := f.parent(e.Path); er == 0 {
			if _, ok := par.get(name); !ok {
				par.set(name, newDir(e.Perm))
			}
		}
	case "create":
		if par, name, er := f.parent(e.Path); er == 0 {
			par.set(name, &node{perm: e.Perm})
		}
	case "truncate":
		if n, er := f.lookup(e.Path); er == 0 && !n.dir {
			n.resize(e.Off)
		}
	case "write":
		if n, er := f.lookup(e.Path); er == 0 && !n.dir {
			n.writeAt(e.Data, e.Off)
		}
	case "remove", "removeall":
		if par, name, er := f.parent(e.Path); er == 0 {
			par.del(name)
		} else if e.Path == "/" {
			f.root.children = nil
		}
	case "rename":
		if fp, fname, er := f.parent(e.Path); er == 0 {
			if n, ok := fp.get(fname); ok {
				if tp, tname, er2 := f.parent(e.Path2); er2 == 0 {
					fp.del(fname)
					tp.set(tname, n)
				}
			}
		}
	}
}

// RawRead returns the content of a file without any simulation effect.
//
//go:norace
func (f *FS) RawRead(p string) ([]byte, bool) {
	n, e := f.lookup(p)
	if e != 0 || n.dir {
		return nil, false
	}
	return cloneBytes(n.data), true
}

// RawWrite creates or replaces a file (parents are created).
//
//go:norace
func (f *FS) RawWrite(p string, data []byte) {
	parts := split(p)
	n := f.root
	for _, part := range parts[:len(parts)-1] {
		c, ok := n.get(part)
		if !ok {
			c = newDir(0700)
			n.set(part, c)
		}
		n = c
	}
	n.set(parts[len(parts)-1], &node{data: cloneBytes(data), perm: 0700})
}

//go:norace
func (f *FS) RawMkdir(p string) {
	n := f.root
	for _, part := range split(p) {
		c, ok := n.get(part)
		if !ok {
			c = newDir(0700)
			n.set(part, c)
		}
		n = c
	}
}

//go:norace
func (f *FS) RawRemove(p string) bool {
	par, name, e := f.parent(p)
	if e != 0 {
		return false
	}
	if _, ok := par.get(name); !ok {
		return false
	}
	par.del(name)
	return true
}

// RawEntry describes one directory entry for the harness.
type RawEntry struct {
	Name string
	Dir  bool
	Size int
}

//go:norace
func (f *FS) RawList(p string) ([]RawEntry, bool) {
	n, e := f.lookup(p)
	if e != 0 || !n.dir {
		return nil, false
	}
	out := make([]RawEntry, 0, len(n.children))
	for _, d := range n.children {
		out = append(out, RawEntry{Name: d.name, Dir: d.n.dir, Size: len(d.n.data)})
	}
	return out, true
}

// Hash returns a digest of the whole tree below p (names, kinds, contents).
//
//go:norace
func (f *FS) Hash(p string) uint64 {
	n, e := f.lookup(p)
	if e != 0 {
		return 0
	}
	h := uint64(1469598103934665603)
	var rec func(name string, n *node)
	rec = func(name string, n *node) {
		for i := 0; i < len(name); i++ {
			h = (h ^ uint64(name[i])) * 1099511628211
		}
		if n.dir {
			h = (h ^ 0xd1) * 1099511628211
			for _, d := range n.children {
				rec(d.name, d.n)
			}
			h = (h ^ 0xd2) * 1099511628211
		} else {
			h = (h ^ 0xf1) * 1099511628211
			for _, b := range n.data {
				h = (h ^ uint64(b)) * 1099511628211
			}
		}
	}
	rec("", n)
	return h
}

// Byte helpers written as plain loops: with -race the compiler turns copy()
// and append(x, y...) into runtime calls that record the accesses, and file
// contents passed between tasks through the simulated kernel are not shared
// memory of the program under test.

//go:norace
func copyBytes(dst, src []byte) int {
	n := len(src)
	if len(dst) < n {
		n = len(dst)
	}
	for i := 0; i < n; i++ {
		dst[i] = src[i]
	}
	return n
}

//go:norace
func cloneBytes(src []byte) []byte {
	if src == nil {
		return nil
	}
	out := make([]byte, len(src))
	for i := range src {
		out[i] = src[i]
	}
	return out
}

//go:norace
func growBytes(b []byte, size int) []byte {
	if size <= len(b) {
		return b
	}
	out := make([]byte, size)
	for i := range b {
		out[i] = b[i]
	}
	return out
}
