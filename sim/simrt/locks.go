package simrt

import (
	"fmt"
	"unsafe"
)

// RWMutex reproduces the observable blocking semantics of sync.RWMutex:
// a writer first queues among writers, then announces itself (from then on
// every new RLock blocks) and waits for the readers active at that moment;
// Unlock releases every reader blocked so far before the next writer can
// announce. The zero value is an unlocked mutex.
type RWMutex struct {
	wHolder      *Task // holds the writers' mutex (announced or about to)
	announced    bool
	writerActive bool
	wQueue       []*Task
	active       int
	readers      []readerEnt // a slice, not a map (see fs.go)
	readerWait   int
	rBlocked     []*Task
	rsem, wsem   byte // addresses for race annotations
}

type readerEnt struct {
	t *Task
	n int
}

//go:norace
func (m *RWMutex) rcount(t *Task) int {
	for i := range m.readers {
		if m.readers[i].t == t {
			return m.readers[i].n
		}
	}
	return 0
}

//go:norace
func (m *RWMutex) radd(t *Task, d int) {
	for i := range m.readers {
		if m.readers[i].t == t {
			m.readers[i].n += d
			return
		}
	}
	m.readers = append(m.readers, readerEnt{t: t, n: d})
}

func where(m interface{}) string { return fmt.Sprintf("%p", m) }

//go:norace
func (m *RWMutex) holders() string {
	s := ""
	if m.wHolder != nil {
		s += fmt.Sprintf(" writer=%s(announced=%v,active=%v)", m.wHolder.Name, m.announced, m.writerActive)
	}
	if w := Cur(); w != nil {
		for _, t := range w.tasks {
			if m.rcount(t) > 0 {
				s += fmt.Sprintf(" reader=%s", t.Name)
			}
		}
	}
	return s
}

func (m *RWMutex) Lock() {
	m.lock()
	raceAcquire(unsafe.Pointer(&m.rsem))
	raceAcquire(unsafe.Pointer(&m.wsem))
}

//go:norace
func (m *RWMutex) lock() {
	w := Cur()
	if w == nil || w.dead {
		return
	}
	w.Yield("Lock")
	t := w.cur
	if m.wHolder == t {
		w.selfDeadlock("Lock " + where(m) + " (held for writing by the same task)")
	}
	if m.wHolder != nil {
		m.wQueue = append(m.wQueue, t)
		for m.wHolder != t {
			w.block("Lock " + where(m) + " (queued behind" + m.holders() + ")")
		}
	} else {
		m.wHolder = t
	}
	m.announced = true
	m.readerWait = m.active
	for m.readerWait > 0 {
		w.Stat("writer-waits-for-readers")
		w.block("Lock " + where(m) + " (announced, waiting for" + m.holders() + ")")
	}
	m.writerActive = true
}

func (m *RWMutex) Unlock() {
	raceRelease(unsafe.Pointer(&m.rsem))
	m.unlock()
}

//go:norace
func (m *RWMutex) unlock() {
	w := Cur()
	if w == nil || w.dead {
		return
	}
	if w.anyExtern {
		w.reenter()
	}
	if !m.writerActive {
		panic("sync: Unlock of unlocked RWMutex")
	}
	m.writerActive = false
	m.announced = false
	for _, r := range m.rBlocked {
		m.active++
		m.radd(r, 1)
		w.ready(r)
	}
	m.rBlocked = nil
	m.wHolder = nil
	if len(m.wQueue) > 0 {
		i := 0
		if len(m.wQueue) > 1 {
			i = w.rng.Intn(len(m.wQueue))
		}
		nw := m.wQueue[i]
		m.wQueue = removeTask(m.wQueue, i)
		m.wHolder = nw
		w.ready(nw)
	}
	w.Yield("Unlock")
}

func (m *RWMutex) RLock() {
	m.rlock()
	raceAcquire(unsafe.Pointer(&m.rsem))
}

//go:norace
func (m *RWMutex) rlock() {
	w := Cur()
	if w == nil || w.dead {
		return
	}
	w.Yield("RLock")
	t := w.cur
	if m.announced && m.wHolder == t {
		// sync.RWMutex is not re-entrant: a task asking for the read lock of a mutex it holds
		// (or has announced) for writing waits for itself, whoever else may run
		w.selfDeadlock("RLock " + where(m) + " (held for writing by the same task)")
	}
	if m.announced {
		if m.rcount(t) > 0 {
			w.Stat("rlock-reentered-behind-writer")
		}
		m.rBlocked = append(m.rBlocked, t)
		// woken by Unlock, which also counts us as active
		woken := false
		for !woken {
			w.block("RLock " + where(m) + " (behind" + m.holders() + ")")
			woken = true
			for _, b := range m.rBlocked {
				if b == t {
					woken = false
				}
			}
		}
		return
	}
	m.active++
	m.radd(t, 1)
}

func (m *RWMutex) RUnlock() {
	raceReleaseMerge(unsafe.Pointer(&m.wsem))
	m.runlock()
}

//go:norace
func (m *RWMutex) runlock() {
	w := Cur()
	if w == nil || w.dead {
		return
	}
	if w.anyExtern {
		w.reenter()
	}
	if m.active <= 0 {
		panic("sync: RUnlock of unlocked RWMutex")
	}
	m.active--
	t := w.cur
	if m.rcount(t) > 0 {
		m.radd(t, -1)
	} else {
		// released on behalf of another task: legal in Go
		for _, o := range w.tasks {
			if m.rcount(o) > 0 {
				m.radd(o, -1)
				break
			}
		}
	}
	if m.announced && !m.writerActive {
		m.readerWait--
		if m.readerWait == 0 {
			w.ready(m.wHolder)
		}
	}
	w.Yield("RUnlock")
}

// Mutex is the simulated sync.Mutex.
type Mutex struct {
	holder *Task
	locked bool
	queue  []*Task
	sem    byte
}

func (m *Mutex) Lock() {
	m.lock()
	raceAcquire(unsafe.Pointer(&m.sem))
}

//go:norace
func (m *Mutex) lock() {
	w := Cur()
	if w == nil || w.dead {
		return
	}
	w.Yield("MLock")
	t := w.cur
	if m.locked {
		m.queue = append(m.queue, t)
		for m.holder != t {
			w.block("Mutex.Lock " + where(m) + " held by " + m.holderName())
		}
		return
	}
	m.locked = true
	m.holder = t
}

//go:norace
func (m *Mutex) holderName() string {
	if m.holder == nil {
		return "?"
	}
	return m.holder.Name
}

func (m *Mutex) TryLock() bool {
	if !m.tryLock() {
		return false
	}
	raceAcquire(unsafe.Pointer(&m.sem))
	return true
}

//go:norace
func (m *Mutex) tryLock() bool {
	w := Cur()
	if w == nil || w.dead {
		return true
	}
	w.Yield("MTryLock")
	if m.locked {
		return false
	}
	m.locked = true
	m.holder = w.cur
	return true
}

func (m *Mutex) Unlock() {
	raceRelease(unsafe.Pointer(&m.sem))
	m.unlock()
}

//go:norace
func (m *Mutex) unlock() {
	w := Cur()
	if w == nil || w.dead {
		return
	}
	if w.anyExtern {
		w.reenter()
	}
	if !m.locked {
		panic("sync: unlock of unlocked mutex")
	}
	if len(m.queue) > 0 {
		i := 0
		if len(m.queue) > 1 {
			i = w.rng.Intn(len(m.queue))
		}
		nt := m.queue[i]
		m.queue = removeTask(m.queue, i)
		m.holder = nt
		w.ready(nt)
	} else {
		m.locked = false
		m.holder = nil
	}
	w.Yield("MUnlock")
}

// WaitGroup is the simulated sync.WaitGroup.
type WaitGroup struct {
	n       int
	waiters []*Task
	sem     byte
}

func (g *WaitGroup) Add(delta int) {
	if delta < 0 {
		raceReleaseMerge(unsafe.Pointer(&g.sem))
	}
	g.add(delta)
}

//go:norace
func (g *WaitGroup) add(delta int) {
	w := Cur()
	if w == nil || w.dead {
		return
	}
	if w.anyExtern {
		w.reenter()
	}
	g.n += delta
	if g.n < 0 {
		panic("sync: negative WaitGroup counter")
	}
	if g.n == 0 {
		for _, t := range g.waiters {
			w.ready(t)
		}
		g.waiters = nil
	}
}

func (g *WaitGroup) Done() { g.Add(-1) }

func (g *WaitGroup) Wait() {
	g.wait()
	raceAcquire(unsafe.Pointer(&g.sem))
}

//go:norace
func (g *WaitGroup) wait() {
	w := Cur()
	if w == nil || w.dead {
		return
	}
	w.Yield("WGWait")
	for g.n > 0 {
		g.waiters = append(g.waiters, w.cur)
		w.block("WaitGroup.Wait")
	}
}

// Once is the simulated sync.Once.
type Once struct {
	done bool
	m    Mutex
}

func (o *Once) Do(f func()) {
	o.m.Lock()
	defer o.m.Unlock()
	if !o.done {
		defer func() { o.done = true }()
		f()
	}
}

//go:norace
func removeTask(q []*Task, i int) []*Task {
	for j := i; j+1 < len(q); j++ {
		q[j] = q[j+1]
	}
	return q[:len(q)-1]
}
