package simrt

// Rand is a splitmix64 stream. Every choice of a run is drawn from streams
// derived from one integer, so a run is a pure function of (seed, code).
type Rand struct{ s uint64 }

func NewRand(seed uint64) *Rand { return &Rand{s: seed} }

func Mix(a uint64, parts ...uint64) uint64 {
	x := a
	for _, p := range parts {
		x ^= p + 0x9e3779b97f4a7c15 + (x << 6) + (x >> 2)
		x = mix64(x)
	}
	return mix64(x)
}

func mix64(z uint64) uint64 {
	z += 0x9e3779b97f4a7c15
	z = (z ^ (z >> 30)) * 0xbf58476d1ce4e5b9
	z = (z ^ (z >> 27)) * 0x94d049bb133111eb
	return z ^ (z >> 31)
}

//go:norace
func (r *Rand) Uint64() uint64 {
	r.s += 0x9e3779b97f4a7c15
	z := r.s
	z = (z ^ (z >> 30)) * 0xbf58476d1ce4e5b9
	z = (z ^ (z >> 27)) * 0x94d049bb133111eb
	return z ^ (z >> 31)
}

// Intn returns a value in [0,n). n<=0 yields 0.
//
//go:norace
func (r *Rand) Intn(n int) int {
	if n <= 1 {
		return 0
	}
	return int(r.Uint64() % uint64(n))
}

//go:norace
func (r *Rand) Float() float64 { return float64(r.Uint64()>>11) / float64(1<<53) }

//go:norace
func (r *Rand) Bool() bool { return r.Uint64()&1 == 1 }

// Chance returns true with probability num/den.
//
//go:norace
func (r *Rand) Chance(num, den int) bool { return r.Intn(den) < num }

// Fork derives an independent stream.
//
//go:norace
func (r *Rand) Fork(label uint64) *Rand { return NewRand(Mix(r.Uint64(), label)) }

// Perm returns a permutation of 0..n-1.
//
//go:norace
func (r *Rand) Perm(n int) []int {
	p := make([]int, n)
	for i := range p {
		p[i] = i
	}
	for i := n - 1; i > 0; i-- {
		j := r.Intn(i + 1)
		p[i], p[j] = p[j], p[i]
	}
	return p
}

// Read implements io.Reader (seeded UUID bytes).
//
//go:norace
func (r *Rand) Read(p []byte) (int, error) {
	for i := range p {
		p[i] = byte(r.Uint64())
	}
	return len(p), nil
}
