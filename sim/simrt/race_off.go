//go:build !race

package simrt

import "unsafe"

// RaceBuild reports whether the binary is instrumented by the race detector.
const RaceBuild = false

func raceDisable()                      {}
func raceEnable()                       {}
func raceAcquire(p unsafe.Pointer)      {}
func raceRelease(p unsafe.Pointer)      {}
func raceReleaseMerge(p unsafe.Pointer) {}
