// Package ioutil is the drop-in replacement of io/ioutil over the simulated
// file system.
package ioutil

import (
	"io"
	"io/fs"
	"sort"

	simos "verifsim/simshim/os"
)

var Discard = io.Discard

func ReadAll(r io.Reader) ([]byte, error)  { return io.ReadAll(r) }
func NopCloser(r io.Reader) io.ReadCloser  { return io.NopCloser(r) }
func ReadFile(name string) ([]byte, error) { return simos.ReadFile(name) }
func WriteFile(name string, data []byte, perm fs.FileMode) error {
	return simos.WriteFile(name, data, perm)
}
func TempFile(dir, pattern string) (*simos.File, error) { return simos.CreateTemp(dir, pattern) }
func TempDir(dir, pattern string) (string, error)       { return simos.MkdirTemp(dir, pattern) }
func ReadDir(dirname string) ([]fs.FileInfo, error) {
	es, err := simos.ReadDir(dirname)
	if err != nil {
		return nil, err
	}
	out := make([]fs.FileInfo, 0, len(es))
	for _, e := range es {
		i, _ := e.Info()
		out = append(out, i)
	}
	sort.Slice(out, func(i, j int) bool { return out[i].Name() < out[j].Name() })
	return out, nil
}
