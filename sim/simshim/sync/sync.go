// Package sync is the drop-in replacement of package sync: locks are owned by
// the simulated scheduler.
package sync

import (
	realsync "sync"

	"verifsim/simrt"
)

type (
	Mutex     = simrt.Mutex
	RWMutex   = simrt.RWMutex
	WaitGroup = simrt.WaitGroup
	Once      = simrt.Once
	Locker    = realsync.Locker
	Map       = realsync.Map
	Pool      = realsync.Pool
)
