// Package os is the drop-in replacement of package os for the rewritten copy
// of the code under test: every file-system call goes to the simulated file
// system of the current world.
package os

import (
	"io/fs"
	realos "os"
	"syscall"

	"verifsim/simrt"
)

type (
	File      = simrt.File
	FileInfo  = fs.FileInfo
	FileMode  = fs.FileMode
	DirEntry  = fs.DirEntry
	PathError = fs.PathError
	LinkError = simrt.LinkError
	Signal    = realos.Signal
)

const (
	O_RDONLY = simrt.O_RDONLY
	O_WRONLY = simrt.O_WRONLY
	O_RDWR   = simrt.O_RDWR
	O_APPEND = simrt.O_APPEND
	O_CREATE = simrt.O_CREATE
	O_EXCL   = simrt.O_EXCL
	O_SYNC   = simrt.O_SYNC
	O_TRUNC  = simrt.O_TRUNC

	ModeDir     = fs.ModeDir
	ModePerm    = fs.ModePerm
	ModeSymlink = fs.ModeSymlink
	ModeType    = fs.ModeType
	ModeAppend  = fs.ModeAppend

	PathSeparator     = '/'
	PathListSeparator = ':'
	DevNull           = "/dev/null"
)

var (
	ErrInvalid          = fs.ErrInvalid
	ErrPermission       = fs.ErrPermission
	ErrExist            = fs.ErrExist
	ErrNotExist         = fs.ErrNotExist
	ErrClosed           = fs.ErrClosed
	ErrDeadlineExceeded = realos.ErrDeadlineExceeded

	Stdout = simrt.RealFile(realos.Stdout, "/dev/stdout")
	Stderr = simrt.RealFile(realos.Stderr, "/dev/stderr")
	Stdin  = simrt.RealFile(nil, "/dev/stdin")
	Args   = realos.Args
)

func fsys() *simrt.FS {
	w := simrt.Cur()
	if w == nil {
		panic("simshim/os: file-system call outside a simulated world")
	}
	return w.FS
}

func Stat(name string) (FileInfo, error)  { return fsys().Stat(name) }
func Lstat(name string) (FileInfo, error) { return fsys().Stat(name) }
func Open(name string) (*File, error)     { return fsys().Open(name) }
func Create(name string) (*File, error)   { return fsys().Create(name) }
func OpenFile(name string, flag int, perm FileMode) (*File, error) {
	return fsys().OpenFile(name, flag, perm)
}
func Remove(name string) error                  { return fsys().Remove(name) }
func RemoveAll(path string) error               { return fsys().RemoveAll(path) }
func Mkdir(name string, perm FileMode) error    { return fsys().Mkdir(name, perm) }
func MkdirAll(path string, perm FileMode) error { return fsys().MkdirAll(path, perm) }
func Rename(oldpath, newpath string) error      { return fsys().Rename(oldpath, newpath) }
func ReadDir(name string) ([]DirEntry, error)   { return fsys().ReadDir(name) }
func ReadFile(name string) ([]byte, error)      { return fsys().ReadFile(name) }
func WriteFile(name string, data []byte, perm FileMode) error {
	return fsys().WriteFile(name, data, perm)
}
func Truncate(name string, size int64) error      { return fsys().Truncate(name, size) }
func Chmod(name string, mode FileMode) error      { return fsys().Chmod(name, mode) }
func Chown(name string, uid, gid int) error       { return nil }
func Chtimes(name string, a, m interface{}) error { return nil }

var tmpCounter int

func tmpName(pattern string) string {
	w := simrt.Cur()
	tmpCounter++
	suffix := ""
	if w != nil {
		suffix = itoa(int(w.UUIDRand().Uint64() % 1000000000))
	} else {
		suffix = itoa(tmpCounter)
	}
	for i := len(pattern) - 1; i >= 0; i-- {
		if pattern[i] == '*' {
			return pattern[:i] + suffix + pattern[i+1:]
		}
	}
	return pattern + suffix
}

func itoa(n int) string {
	if n == 0 {
		return "0"
	}
	s := ""
	for n > 0 {
		s = string(rune('0'+n%10)) + s
		n /= 10
	}
	return s
}

func TempDir() string { return "/tmp" }

func CreateTemp(dir, pattern string) (*File, error) {
	if dir == "" {
		dir = TempDir()
	}
	for i := 0; i < 100; i++ {
		f, err := OpenFile(dir+"/"+tmpName(pattern), O_RDWR|O_CREATE|O_EXCL, 0600)
		if IsExist(err) {
			continue
		}
		return f, err
	}
	return nil, &PathError{Op: "createtemp", Path: dir, Err: ErrExist}
}

func MkdirTemp(dir, pattern string) (string, error) {
	if dir == "" {
		dir = TempDir()
	}
	name := dir + "/" + tmpName(pattern)
	return name, MkdirAll(name, 0700)
}

func IsNotExist(err error) bool    { return realos.IsNotExist(err) }
func IsExist(err error) bool       { return realos.IsExist(err) }
func IsPermission(err error) bool  { return realos.IsPermission(err) }
func IsTimeout(err error) bool     { return realos.IsTimeout(err) }
func IsPathSeparator(c uint8) bool { return c == '/' }

func Getpid() int                               { return 4242 }
func Getenv(k string) string                    { return "" }
func LookupEnv(k string) (string, bool)         { return "", false }
func Getwd() (string, error)                    { return "/", nil }
func Hostname() (string, error)                 { return "sim", nil }
func Exit(code int)                             { panic("os.Exit called in simulation") }
func SameFile(a, b FileInfo) bool               { return a == b }
func NewSyscallError(s string, err error) error { return realos.NewSyscallError(s, err) }

var _ = syscall.ENOENT
