// Package time is the drop-in replacement of package time: the clock is the
// discrete-event clock of the current world; Time, Duration, parsing and
// formatting are the real ones.
package time

import (
	realtime "time"

	"verifsim/simrt"
)

type (
	Time       = realtime.Time
	Duration   = realtime.Duration
	Month      = realtime.Month
	Weekday    = realtime.Weekday
	Location   = realtime.Location
	ParseError = realtime.ParseError
)

const (
	Nanosecond  = realtime.Nanosecond
	Microsecond = realtime.Microsecond
	Millisecond = realtime.Millisecond
	Second      = realtime.Second
	Minute      = realtime.Minute
	Hour        = realtime.Hour

	Layout      = realtime.Layout
	ANSIC       = realtime.ANSIC
	UnixDate    = realtime.UnixDate
	RubyDate    = realtime.RubyDate
	RFC822      = realtime.RFC822
	RFC822Z     = realtime.RFC822Z
	RFC850      = realtime.RFC850
	RFC1123     = realtime.RFC1123
	RFC1123Z    = realtime.RFC1123Z
	RFC3339     = realtime.RFC3339
	RFC3339Nano = realtime.RFC3339Nano
	Kitchen     = realtime.Kitchen
	Stamp       = realtime.Stamp
	StampMilli  = realtime.StampMilli
	StampMicro  = realtime.StampMicro
	StampNano   = realtime.StampNano

	January   = realtime.January
	February  = realtime.February
	March     = realtime.March
	April     = realtime.April
	May       = realtime.May
	June      = realtime.June
	July      = realtime.July
	August    = realtime.August
	September = realtime.September
	October   = realtime.October
	November  = realtime.November
	December  = realtime.December

	Sunday    = realtime.Sunday
	Monday    = realtime.Monday
	Tuesday   = realtime.Tuesday
	Wednesday = realtime.Wednesday
	Thursday  = realtime.Thursday
	Friday    = realtime.Friday
	Saturday  = realtime.Saturday
)

var (
	UTC   = realtime.UTC
	Local = realtime.Local
)

func world() *simrt.World {
	w := simrt.Cur()
	if w == nil {
		panic("simshim/time: clock used outside a simulated world")
	}
	return w
}

func Now() Time             { return simrt.Epoch.Add(world().Now()) }
func Since(t Time) Duration { return Now().Sub(t) }
func Until(t Time) Duration { return t.Sub(Now()) }
func Sleep(d Duration)      { world().Sleep(d) }

func Unix(sec, nsec int64) Time { return realtime.Unix(sec, nsec) }
func UnixMilli(ms int64) Time   { return realtime.UnixMilli(ms) }
func UnixMicro(us int64) Time   { return realtime.UnixMicro(us) }
func Date(y int, m Month, d, h, mi, s, ns int, loc *Location) Time {
	return realtime.Date(y, m, d, h, mi, s, ns, loc)
}
func Parse(layout, value string) (Time, error) { return realtime.Parse(layout, value) }
func ParseDuration(s string) (Duration, error) { return realtime.ParseDuration(s) }
func ParseInLocation(layout, value string, loc *Location) (Time, error) {
	return realtime.ParseInLocation(layout, value, loc)
}
func LoadLocation(name string) (*Location, error) { return realtime.LoadLocation(name) }
func FixedZone(name string, offset int) *Location { return realtime.FixedZone(name, offset) }

// Timer and Ticker deliver on channels fed by simulated daemon tasks. A task
// that blocks on such a channel is invisible to the scheduler; the code under
// test does not do that today (it polls with Sleep). See DESIGN.md section 13.
type Timer struct {
	C       <-chan Time
	c       chan Time
	stopped bool
}

func NewTimer(d Duration) *Timer {
	c := make(chan Time, 1)
	t := &Timer{C: c, c: c}
	simrt.Go(func() {
		Sleep(d)
		if !t.stopped {
			select {
			case c <- Now():
			default:
			}
		}
	})
	return t
}

func (t *Timer) Stop() bool { was := !t.stopped; t.stopped = true; return was }

func (t *Timer) Reset(d Duration) bool {
	was := !t.stopped
	t.stopped = true
	nt := NewTimer(d)
	t.C, t.c, t.stopped = nt.C, nt.c, false
	return was
}

func After(d Duration) <-chan Time { return NewTimer(d).C }

func AfterFunc(d Duration, f func()) *Timer {
	t := &Timer{}
	simrt.Go(func() {
		Sleep(d)
		if !t.stopped {
			f()
		}
	})
	return t
}
