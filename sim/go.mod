module verifsim

go 1.18
